//! cw3 family (C03, C05, C06, C15): cw3-fixed-multisig and cw3-flex-multisig on cw-multi-test.
use crate::coqfmt::{b, list, opt};
use crate::rng::Rng;
use crate::world::{set_block, Pool, INVALID_ADDR};
use cosmwasm_std::{
    coin, from_json, to_json_binary, Addr, BankMsg, Binary, Coin, CosmosMsg, Decimal, Deps, DepsMut, Empty, Env, MessageInfo,
    Response, StdError, StdResult, Uint128, WasmMsg,
};
use cw20::{Cw20Coin, Cw20ExecuteMsg, Denom, UncheckedDenom};
use cw3::{
    DepositInfo, ProposalListResponse, ProposalResponse, Status, UncheckedDepositInfo, Vote, VoteListResponse, VoterListResponse,
};
use cw4::{Cw4Contract, Member, MemberListResponse};
use cw_multi_test::{App, ContractWrapper, Executor};
use cw_utils::{Duration, Expiration, Threshold, ThresholdResponse};
use serde::{Deserialize, Serialize};
use std::cell::RefCell;
use std::collections::BTreeMap;

const DENOM: &str = "uatom";
const ANOMALY: usize = 999_999;
const SELF_ID: usize = 1000;
const RICH: u128 = 1u128 << 100;

#[derive(Serialize, Deserialize, Clone, Debug, PartialEq)]
pub enum Arg {
    Id(usize),
    Bad,
}
#[derive(Serialize, Deserialize, Clone, Debug, PartialEq)]
pub enum Exp {
    H(u64),
    T(u64),
    Never,
}
#[derive(Serialize, Deserialize, Clone, Debug, PartialEq)]
pub enum Dur {
    H(u64),
    T(u64),
}
#[derive(Serialize, Deserialize, Clone, Debug, PartialEq)]
pub enum Thr {
    Count(u64),
    Pct(Uint128),          // atomics
    Quorum(Uint128, Uint128),
}
#[derive(Serialize, Deserialize, Clone, Debug, PartialEq)]
pub enum PMsg {
    Bank { to: usize, n: Uint128 },
    SelfExec(u64),
    SelfClose(u64),
    Ok(u64),
    Fail(u64),
}
#[derive(Serialize, Deserialize, Clone, Debug, PartialEq)]
pub enum Tok {
    Native,
    Cw20,
}
#[derive(Serialize, Deserialize, Clone, Debug, PartialEq)]
pub struct Dep {
    pub amount: Uint128,
    pub tok: Tok,
    pub refund: bool,
}
#[derive(Serialize, Deserialize, Clone, Debug, PartialEq)]
pub enum Exec {
    Member,
    Only(usize),
}
#[derive(Serialize, Deserialize, Clone, Debug, PartialEq)]
pub enum V {
    Yes,
    No,
    Abstain,
    Veto,
}
#[derive(Serialize, Deserialize, Clone, Debug, PartialEq)]
pub enum Op {
    Propose { title: u64, msgs: Vec<PMsg>, latest: Option<Exp>, funds: Vec<(usize, Uint128)>, allow: Option<Uint128> },
    Vote { id: u64, v: V },
    Execute { id: u64 },
    Close { id: u64 },
}
#[derive(Serialize, Deserialize, Clone, Debug)]
pub enum Step {
    Call { h: u64, t: u64, s: usize, op: Op },
    Group { h: u64, t: u64, add: Vec<(usize, u64)>, remove: Vec<usize> },
    Fund { h: u64, t: u64, n: Uint128 },
}
#[derive(Serialize, Deserialize, Clone, Debug)]
pub struct Init {
    pub flex: bool,
    pub voters: Vec<(Arg, u64)>, // fixed: the voter list; flex: the group's initial members (ids only)
    pub threshold: Thr,
    pub period: Dur,
    pub executor: Option<Exec>,
    pub deposit: Option<Dep>,
    pub h: u64,
    pub t: u64,
}
#[derive(Serialize, Deserialize, Clone, Debug)]
pub struct Trace {
    pub family: String,
    pub seed: u64,
    pub case: u64,
    pub users: usize,
    pub init: Init,
    pub steps: Vec<Step>,
}

// ---- log of every invocation of the multisig's execute entry point within a transaction
#[derive(Clone, Debug)]
pub enum LoggedOp {
    Propose { title: String, msgs: Vec<CosmosMsg>, latest: Option<Expiration> },
    Vote { id: u64, v: Vote },
    Execute { id: u64 },
    Close { id: u64 },
    Other,
}
thread_local! {
    static LOG3: RefCell<Vec<(String, LoggedOp, Result<Response, String>)>> = RefCell::new(vec![]);
}
fn fx_execute(deps: DepsMut, env: Env, info: MessageInfo, msg: cw3_fixed_multisig::msg::ExecuteMsg) -> Result<Response, cw3_fixed_multisig::ContractError> {
    use cw3_fixed_multisig::msg::ExecuteMsg as M;
    let lop = match &msg {
        M::Propose { title, msgs, latest, .. } => LoggedOp::Propose { title: title.clone(), msgs: msgs.clone(), latest: *latest },
        M::Vote { proposal_id, vote } => LoggedOp::Vote { id: *proposal_id, v: *vote },
        M::Execute { proposal_id } => LoggedOp::Execute { id: *proposal_id },
        M::Close { proposal_id } => LoggedOp::Close { id: *proposal_id },
    };
    let sender = info.sender.to_string();
    let r = cw3_fixed_multisig::contract::execute(deps, env, info, msg);
    LOG3.with(|l| l.borrow_mut().push((sender, lop, r.as_ref().map(|x| x.clone()).map_err(|e| e.to_string()))));
    r
}
fn fx_instantiate(deps: DepsMut, env: Env, info: MessageInfo, msg: cw3_fixed_multisig::msg::InstantiateMsg) -> Result<Response, cw3_fixed_multisig::ContractError> {
    cw3_fixed_multisig::contract::instantiate(deps, env, info, msg)
}
fn fx_query(deps: Deps, env: Env, msg: cw3_fixed_multisig::msg::QueryMsg) -> StdResult<Binary> {
    cw3_fixed_multisig::contract::query(deps, env, msg)
}
fn fl_execute(deps: DepsMut, env: Env, info: MessageInfo, msg: cw3_flex_multisig::msg::ExecuteMsg) -> Result<Response, cw3_flex_multisig::ContractError> {
    use cw3_flex_multisig::msg::ExecuteMsg as M;
    let lop = match &msg {
        M::Propose { title, msgs, latest, .. } => LoggedOp::Propose { title: title.clone(), msgs: msgs.clone(), latest: *latest },
        M::Vote { proposal_id, vote } => LoggedOp::Vote { id: *proposal_id, v: *vote },
        M::Execute { proposal_id } => LoggedOp::Execute { id: *proposal_id },
        M::Close { proposal_id } => LoggedOp::Close { id: *proposal_id },
        _ => LoggedOp::Other,
    };
    let sender = info.sender.to_string();
    let r = cw3_flex_multisig::contract::execute(deps, env, info, msg);
    LOG3.with(|l| l.borrow_mut().push((sender, lop, r.as_ref().map(|x| x.clone()).map_err(|e| e.to_string()))));
    r
}
fn fl_instantiate(deps: DepsMut, env: Env, info: MessageInfo, msg: cw3_flex_multisig::msg::InstantiateMsg) -> Result<Response, cw3_flex_multisig::ContractError> {
    cw3_flex_multisig::contract::instantiate(deps, env, info, msg)
}
fn fl_query(deps: Deps, env: Env, msg: cw3_flex_multisig::msg::QueryMsg) -> StdResult<Binary> {
    cw3_flex_multisig::contract::query(deps, env, msg)
}

// ---- a target contract for POk / PFail messages
#[derive(Serialize, Deserialize, Clone, Debug, PartialEq, schemars::JsonSchema)]
pub struct TargetMsg {
    pub tag: u64,
    pub fail: bool,
}
fn target_execute(_d: DepsMut, _e: Env, _i: MessageInfo, msg: TargetMsg) -> StdResult<Response> {
    if msg.fail {
        Err(StdError::generic_err("target refuses"))
    } else {
        Ok(Response::default())
    }
}
fn target_instantiate(_d: DepsMut, _e: Env, _i: MessageInfo, _m: Empty) -> StdResult<Response> {
    Ok(Response::default())
}
fn target_query(_d: Deps, _e: Env, _m: Empty) -> StdResult<Binary> {
    to_json_binary(&Empty {})
}

// ---- observation
#[derive(Clone, Debug, PartialEq)]
pub struct PObs {
    pub id: u64,
    pub title: u64,
    pub status: u8, // 1 pending 2 open 3 rejected 4 passed 5 executed
    pub expires: Exp,
    pub proposer: usize,
    pub deposit: Option<(u128, Tok, bool)>,
    pub threshold: Thr,
    pub total: u64,
    pub msgs: Vec<PMsg>,
    pub ballots: Vec<(usize, u64, V)>,
}
#[derive(Clone, Debug, Default)]
pub struct Obs {
    pub props: Vec<PObs>,
    pub voters: Vec<(usize, u64)>,
    pub ms_native: u128,
    pub ms_cw20: u128,
    pub native: Vec<(usize, u128)>,
    pub cw20: Vec<(usize, u128)>,
    /// ids whose single `Proposal{id}` answer differs from their `ListProposals` entry; 0 = the
    /// reverse listing differs from the forward one
    pub view_bad: Vec<u64>,
}
#[derive(Clone, Debug, Default)]
pub struct GEnv {
    pub now: Vec<(usize, u64)>,
    pub total: u64,
    pub at: Vec<(usize, u64, Option<u64>)>,
    pub block_start: Vec<(usize, u64)>,
    pub changed: bool,
    /// per proposal id: ListMembers as it was when the proposal's creation block began (recorded by
    /// the harness, independent of the group's at-height queries)
    pub snaps: Vec<(u64, Vec<(usize, u64)>)>,
}
#[derive(Clone, Debug)]
pub enum EMsg {
    Take { owner: usize, n: u128 },
    Refund { tok: Tok, to: usize, n: u128 },
    User(PMsg),
}
#[derive(Clone, Debug)]
pub struct HCall {
    pub sender: usize,
    pub op: Option<Op>,
    pub hok: bool,
    pub out: Vec<EMsg>,
}

pub struct World {
    pub app: App,
    pub pool: Pool,
    pub token: Addr,
    pub target: Addr,
    pub group: Option<Addr>,
    pub gadmin: Addr,
    pub ms: Option<Addr>,
    pub flex: bool,
    pub creator: Addr,
    pub height: u64,
    pub time: u64,
    pub block_start: Vec<(usize, u64)>,
    pub changed: bool,
    pub starts: Vec<(u64, u64)>,
    pub snaps: Vec<(u64, Vec<(usize, u64)>)>,
}

fn conv_exp(e: &Expiration) -> Exp {
    match e {
        Expiration::AtHeight(h) => Exp::H(*h),
        Expiration::AtTime(t) => Exp::T(t.nanos()),
        Expiration::Never {} => Exp::Never,
    }
}
fn to_exp(e: &Exp) -> Expiration {
    match e {
        Exp::H(h) => Expiration::AtHeight(*h),
        Exp::T(t) => Expiration::AtTime(cosmwasm_std::Timestamp::from_nanos(*t)),
        Exp::Never => Expiration::Never {},
    }
}
fn dec(a: Uint128) -> Decimal {
    Decimal::new(a)
}
fn to_thr(t: &Thr) -> Threshold {
    match t {
        Thr::Count(w) => Threshold::AbsoluteCount { weight: *w },
        Thr::Pct(p) => Threshold::AbsolutePercentage { percentage: dec(*p) },
        Thr::Quorum(t, q) => Threshold::ThresholdQuorum { threshold: dec(*t), quorum: dec(*q) },
    }
}
fn conv_thr(t: &ThresholdResponse) -> (Thr, u64) {
    match t {
        ThresholdResponse::AbsoluteCount { weight, total_weight } => (Thr::Count(*weight), *total_weight),
        ThresholdResponse::AbsolutePercentage { percentage, total_weight } => (Thr::Pct(percentage.atomics()), *total_weight),
        ThresholdResponse::ThresholdQuorum { threshold, quorum, total_weight } => {
            (Thr::Quorum(threshold.atomics(), quorum.atomics()), *total_weight)
        }
    }
}
fn to_vote(v: &V) -> Vote {
    match v {
        V::Yes => Vote::Yes,
        V::No => Vote::No,
        V::Abstain => Vote::Abstain,
        V::Veto => Vote::Veto,
    }
}
fn conv_vote(v: &Vote) -> V {
    match v {
        Vote::Yes => V::Yes,
        Vote::No => V::No,
        Vote::Abstain => V::Abstain,
        Vote::Veto => V::Veto,
    }
}

impl World {
    pub fn new(nusers: usize, h: u64, t: u64) -> World {
        let mut app = App::default();
        let creator = app.api().addr_make("creator");
        let gadmin = app.api().addr_make("gadmin");
        let users: Vec<Addr> = (0..nusers).map(|i| app.api().addr_make(&format!("user{}", i))).collect();
        let us = users.clone();
        app.init_modules(|router, _, storage| {
            for u in &us {
                router.bank.init_balance(storage, u, vec![coin(RICH, DENOM), coin(RICH, "ubtc")]).unwrap();
            }
        });
        set_block(&mut app, h, t);
        let c20 = app.store_code(Box::new(ContractWrapper::new(
            cw20_base::contract::execute,
            cw20_base::contract::instantiate,
            cw20_base::contract::query,
        )));
        let msg = cw20_base::msg::InstantiateMsg {
            name: "deposit".into(),
            symbol: "DEP".into(),
            decimals: 6,
            initial_balances: users.iter().map(|u| Cw20Coin { address: u.to_string(), amount: Uint128::new(RICH) }).collect(),
            mint: None,
            marketing: None,
        };
        let token = app.instantiate_contract(c20, creator.clone(), &msg, &[], "tok", None).unwrap();
        let tcode = app.store_code(Box::new(ContractWrapper::new(target_execute, target_instantiate, target_query)));
        let target = app.instantiate_contract(tcode, creator.clone(), &Empty {}, &[], "target", None).unwrap();
        let pool = Pool::new(users);
        World {
            app, pool, token, target, group: None, gadmin, ms: None, flex: false, creator, height: h, time: t,
            block_start: vec![], changed: false, starts: vec![], snaps: vec![],
        }
    }
    fn arg(&self, a: &Arg) -> String {
        match a {
            Arg::Id(i) => self.pool.addr(*i).to_string(),
            Arg::Bad => INVALID_ADDR.to_string(),
        }
    }
    fn id(&self, a: &str) -> usize {
        if let Some(ms) = &self.ms {
            if ms.as_str() == a {
                return SELF_ID;
            }
        }
        self.pool.id(a).unwrap_or(ANOMALY)
    }
    pub fn instantiate(&mut self, init: &Init) -> bool {
        self.flex = init.flex;
        let creator = self.creator.clone();
        let period = match init.period {
            Dur::H(n) => Duration::Height(n),
            Dur::T(n) => Duration::Time(n),
        };
        let res = if init.flex {
            let gcode = self.app.store_code(Box::new(ContractWrapper::new(
                cw4_group::contract::execute,
                cw4_group::contract::instantiate,
                cw4_group::contract::query,
            )));
            let gmsg = cw4_group::msg::InstantiateMsg {
                admin: Some(self.gadmin.to_string()),
                members: init.voters.iter().filter_map(|(a, w)| match a {
                    Arg::Id(i) => Some(Member { addr: self.pool.addr(*i).to_string(), weight: *w }),
                    Arg::Bad => None,
                }).collect(),
            };
            let group = match self.app.instantiate_contract(gcode, creator.clone(), &gmsg, &[], "group", None) {
                Ok(g) => g,
                Err(_) => return false,
            };
            self.group = Some(group.clone());
            // the group is created one block before the multisig, so that snapshots exist
            self.height += 1;
            self.time += 1_000_000_000;
            set_block(&mut self.app, self.height, self.time);
            let code = self.app.store_code(Box::new(ContractWrapper::new(fl_execute, fl_instantiate, fl_query)));
            let msg = cw3_flex_multisig::msg::InstantiateMsg {
                group_addr: group.to_string(),
                threshold: to_thr(&init.threshold),
                max_voting_period: period,
                executor: init.executor.as_ref().map(|e| match e {
                    Exec::Member => cw3_flex_multisig::state::Executor::Member,
                    Exec::Only(i) => cw3_flex_multisig::state::Executor::Only(self.pool.addr(*i)),
                }),
                proposal_deposit: init.deposit.as_ref().map(|d| UncheckedDepositInfo {
                    amount: d.amount,
                    denom: match d.tok {
                        Tok::Native => UncheckedDenom::Native(DENOM.to_string()),
                        Tok::Cw20 => UncheckedDenom::Cw20(self.token.to_string()),
                    },
                    refund_failed_proposals: d.refund,
                }),
            };
            let app = &mut self.app;
            std::panic::catch_unwind(std::panic::AssertUnwindSafe(|| app.instantiate_contract(code, creator, &msg, &[], "flex", None)))
        } else {
            let code = self.app.store_code(Box::new(ContractWrapper::new(fx_execute, fx_instantiate, fx_query)));
            let msg = cw3_fixed_multisig::msg::InstantiateMsg {
                voters: init.voters.iter().map(|(a, w)| cw3_fixed_multisig::msg::Voter { addr: self.arg(a), weight: *w }).collect(),
                threshold: to_thr(&init.threshold),
                max_voting_period: period,
            };
            let app = &mut self.app;
            std::panic::catch_unwind(std::panic::AssertUnwindSafe(|| app.instantiate_contract(code, creator, &msg, &[], "fixed", None)))
        };
        match res {
            Ok(Ok(addr)) => {
                // working capital for the bank sends of executed proposals
                let a = addr.clone();
                self.app.init_modules(|router, _, storage| router.bank.init_balance(storage, &a, vec![coin(1000, DENOM)]).unwrap());
                self.ms = Some(addr);
                self.block_start = self.group_members();
                true
            }
            _ => false,
        }
    }

    pub fn group_members(&self) -> Vec<(usize, u64)> {
        let mut out = vec![];
        if let Some(g) = &self.group {
            let mut start: Option<String> = None;
            for _ in 0..100 {
                let r: MemberListResponse = self
                    .app
                    .wrap()
                    .query_wasm_smart(g, &cw4_group::msg::QueryMsg::ListMembers { start_after: start.clone(), limit: Some(30) })
                    .unwrap();
                if r.members.is_empty() {
                    break;
                }
                start = r.members.last().map(|m| m.addr.clone());
                for m in r.members {
                    out.push((self.id(&m.addr), m.weight));
                }
            }
        }
        out
    }

    pub fn to_cosmos(&self, m: &PMsg) -> CosmosMsg {
        let ms = self.ms.clone().unwrap();
        match m {
            PMsg::Bank { to, n } => CosmosMsg::Bank(BankMsg::Send { to_address: self.pool.addr(*to).to_string(), amount: vec![Coin { denom: DENOM.into(), amount: *n }] }),
            PMsg::SelfExec(id) => {
                let msg = if self.flex {
                    to_json_binary(&cw3_flex_multisig::msg::ExecuteMsg::Execute { proposal_id: *id }).unwrap()
                } else {
                    to_json_binary(&cw3_fixed_multisig::msg::ExecuteMsg::Execute { proposal_id: *id }).unwrap()
                };
                CosmosMsg::Wasm(WasmMsg::Execute { contract_addr: ms.to_string(), msg, funds: vec![] })
            }
            PMsg::SelfClose(id) => {
                let msg = if self.flex {
                    to_json_binary(&cw3_flex_multisig::msg::ExecuteMsg::Close { proposal_id: *id }).unwrap()
                } else {
                    to_json_binary(&cw3_fixed_multisig::msg::ExecuteMsg::Close { proposal_id: *id }).unwrap()
                };
                CosmosMsg::Wasm(WasmMsg::Execute { contract_addr: ms.to_string(), msg, funds: vec![] })
            }
            PMsg::Ok(tag) => CosmosMsg::Wasm(WasmMsg::Execute {
                contract_addr: self.target.to_string(),
                msg: to_json_binary(&TargetMsg { tag: *tag, fail: false }).unwrap(),
                funds: vec![],
            }),
            PMsg::Fail(tag) => CosmosMsg::Wasm(WasmMsg::Execute {
                contract_addr: self.target.to_string(),
                msg: to_json_binary(&TargetMsg { tag: *tag, fail: true }).unwrap(),
                funds: vec![],
            }),
        }
    }
    /// classify a message found in a Response or in a stored proposal
    pub fn from_cosmos(&self, m: &CosmosMsg) -> EMsg {
        let ms = self.ms.as_ref().map(|a| a.to_string()).unwrap_or_default();
        match m {
            CosmosMsg::Bank(BankMsg::Send { to_address, amount }) if amount.len() == 1 && amount[0].denom == DENOM => {
                EMsg::User(PMsg::Bank { to: self.id(to_address), n: amount[0].amount })
            }
            CosmosMsg::Wasm(WasmMsg::Execute { contract_addr, msg, .. }) => {
                if *contract_addr == ms {
                    if self.flex {
                        if let Ok(x) = from_json::<cw3_flex_multisig::msg::ExecuteMsg>(msg) {
                            match x {
                                cw3_flex_multisig::msg::ExecuteMsg::Execute { proposal_id } => return EMsg::User(PMsg::SelfExec(proposal_id)),
                                cw3_flex_multisig::msg::ExecuteMsg::Close { proposal_id } => return EMsg::User(PMsg::SelfClose(proposal_id)),
                                _ => {}
                            }
                        }
                    } else if let Ok(x) = from_json::<cw3_fixed_multisig::msg::ExecuteMsg>(msg) {
                        match x {
                            cw3_fixed_multisig::msg::ExecuteMsg::Execute { proposal_id } => return EMsg::User(PMsg::SelfExec(proposal_id)),
                            cw3_fixed_multisig::msg::ExecuteMsg::Close { proposal_id } => return EMsg::User(PMsg::SelfClose(proposal_id)),
                            _ => {}
                        }
                    }
                    return EMsg::User(PMsg::Ok(u64::MAX));
                }
                if *contract_addr == self.target.to_string() {
                    if let Ok(t) = from_json::<TargetMsg>(msg) {
                        return EMsg::User(if t.fail { PMsg::Fail(t.tag) } else { PMsg::Ok(t.tag) });
                    }
                }
                if *contract_addr == self.token.to_string() {
                    match from_json::<Cw20ExecuteMsg>(msg) {
                        Ok(Cw20ExecuteMsg::TransferFrom { owner, recipient, amount }) if recipient == ms => {
                            return EMsg::Take { owner: self.id(&owner), n: amount.u128() }
                        }
                        Ok(Cw20ExecuteMsg::Transfer { recipient, amount }) => {
                            return EMsg::Refund { tok: Tok::Cw20, to: self.id(&recipient), n: amount.u128() }
                        }
                        _ => {}
                    }
                }
                EMsg::User(PMsg::Ok(u64::MAX - 1))
            }
            _ => EMsg::User(PMsg::Ok(u64::MAX - 2)),
        }
    }
    /// in a handler's Response a native bank send to the proposer as first message of Execute/Close is the refund
    fn classify_out(&self, lop: &LoggedOp, resp: &Response, pre: &Obs) -> Vec<EMsg> {
        let mut out: Vec<EMsg> = resp.messages.iter().map(|sm| self.from_cosmos(&sm.msg)).collect();
        let id = match lop {
            LoggedOp::Execute { id } | LoggedOp::Close { id } => Some(*id),
            _ => None,
        };
        if let Some(id) = id {
            if let Some(p) = pre.props.iter().find(|p| p.id == id) {
                if let Some((amount, Tok::Native, _)) = &p.deposit {
                    let proposed = p.msgs.len();
                    // messages in front of the proposal's own messages are the contract's additions
                    let extra = out.len().saturating_sub(if matches!(lop, LoggedOp::Execute { .. }) { proposed } else { 0 });
                    for m in out.iter_mut().take(extra) {
                        if let EMsg::User(PMsg::Bank { to, n }) = m {
                            let _ = amount;
                            *m = EMsg::Refund { tok: Tok::Native, to: *to, n: n.u128() };
                        }
                    }
                }
            }
        }
        out
    }

    pub fn observe(&self) -> Obs {
        let ms = self.ms.clone().unwrap();
        let q = self.app.wrap();
        let mut o = Obs::default();
        let mut start: Option<u64> = None;
        let mut raw: Vec<ProposalResponse> = vec![];
        let mut listing_aborted = false;
        for _ in 0..100 {
            let rr: StdResult<ProposalListResponse> = if self.flex {
                q.query_wasm_smart(&ms, &cw3_flex_multisig::msg::QueryMsg::ListProposals { start_after: start, limit: Some(30) })
            } else {
                q.query_wasm_smart(&ms, &cw3_fixed_multisig::msg::QueryMsg::ListProposals { start_after: start, limit: Some(30) })
            };
            let r = match rr {
                Ok(r) => r,
                Err(_) => {
                    listing_aborted = true;
                    ProposalListResponse { proposals: vec![] }
                }
            };
            if r.proposals.is_empty() {
                break;
            }
            start = r.proposals.last().map(|p| p.id);
            for p in r.proposals {
                o.props.push(self.conv_prop(&p));
                raw.push(p);
            }
        }
        // every view of a proposal must be the same record: single query and reverse listing
        for p in &raw {
            let r: StdResult<ProposalResponse> = if self.flex {
                q.query_wasm_smart(&ms, &cw3_flex_multisig::msg::QueryMsg::Proposal { proposal_id: p.id })
            } else {
                q.query_wasm_smart(&ms, &cw3_fixed_multisig::msg::QueryMsg::Proposal { proposal_id: p.id })
            };
            if let Ok(sp) = r {
                if &sp != p {
                    o.view_bad.push(p.id);
                }
            }
        }
        {
            let mut rev: Vec<ProposalResponse> = vec![];
            let mut before: Option<u64> = None;
            let mut aborted = false;
            for _ in 0..100 {
                let r: StdResult<ProposalListResponse> = if self.flex {
                    q.query_wasm_smart(&ms, &cw3_flex_multisig::msg::QueryMsg::ReverseProposals { start_before: before, limit: Some(30) })
                } else {
                    q.query_wasm_smart(&ms, &cw3_fixed_multisig::msg::QueryMsg::ReverseProposals { start_before: before, limit: Some(30) })
                };
                match r {
                    Ok(r) => {
                        if r.proposals.is_empty() {
                            break;
                        }
                        before = r.proposals.last().map(|p| p.id);
                        rev.extend(r.proposals);
                    }
                    Err(_) => {
                        aborted = true;
                        break;
                    }
                }
            }
            rev.reverse();
            if !aborted && !listing_aborted && rev != raw {
                o.view_bad.push(0);
            }
        }
        // a listing that aborts (class D3) hides proposals: fall back to single queries
        let mut id = o.props.len() as u64 + 1;
        loop {
            let r: StdResult<ProposalResponse> = if self.flex {
                q.query_wasm_smart(&ms, &cw3_flex_multisig::msg::QueryMsg::Proposal { proposal_id: id })
            } else {
                q.query_wasm_smart(&ms, &cw3_fixed_multisig::msg::QueryMsg::Proposal { proposal_id: id })
            };
            match r {
                Ok(p) => {
                    o.props.push(self.conv_prop(&p));
                    id += 1;
                }
                Err(_) => break,
            }
        }
        let mut start: Option<String> = None;
        for _ in 0..100 {
            let r: VoterListResponse = if self.flex {
                q.query_wasm_smart(&ms, &cw3_flex_multisig::msg::QueryMsg::ListVoters { start_after: start.clone(), limit: Some(30) }).unwrap()
            } else {
                q.query_wasm_smart(&ms, &cw3_fixed_multisig::msg::QueryMsg::ListVoters { start_after: start.clone(), limit: Some(30) }).unwrap()
            };
            if r.voters.is_empty() {
                break;
            }
            start = r.voters.last().map(|v| v.addr.clone());
            for v in r.voters {
                o.voters.push((self.id(&v.addr), v.weight));
            }
        }
        let nb = |a: &Addr| q.query_balance(a, DENOM).map(|c| c.amount.u128()).unwrap_or(0);
        let cb = |a: &Addr| -> u128 {
            let r: StdResult<cw20::BalanceResponse> = q.query_wasm_smart(&self.token, &cw20::Cw20QueryMsg::Balance { address: a.to_string() });
            r.map(|x| x.balance.u128()).unwrap_or(0)
        };
        o.ms_native = nb(&ms);
        o.ms_cw20 = cb(&ms);
        for (i, a) in self.pool.addrs.iter().enumerate() {
            o.native.push((i, nb(a)));
            o.cw20.push((i, cb(a)));
        }
        o
    }
    fn conv_prop(&self, p: &ProposalResponse) -> PObs {
        let ms = self.ms.clone().unwrap();
        let (thr, total) = conv_thr(&p.threshold);
        let mut ballots = vec![];
        let mut start: Option<String> = None;
        for _ in 0..100 {
            let r: VoteListResponse = if self.flex {
                self.app.wrap().query_wasm_smart(&ms, &cw3_flex_multisig::msg::QueryMsg::ListVotes { proposal_id: p.id, start_after: start.clone(), limit: Some(30) }).unwrap()
            } else {
                self.app.wrap().query_wasm_smart(&ms, &cw3_fixed_multisig::msg::QueryMsg::ListVotes { proposal_id: p.id, start_after: start.clone(), limit: Some(30) }).unwrap()
            };
            if r.votes.is_empty() {
                break;
            }
            start = r.votes.last().map(|v| v.voter.clone());
            for v in r.votes {
                ballots.push((self.id(&v.voter), v.weight, conv_vote(&v.vote)));
            }
        }
        PObs {
            id: p.id,
            title: p.title.trim_start_matches('t').parse().unwrap_or(u64::MAX),
            status: match p.status {
                Status::Pending => 1,
                Status::Open => 2,
                Status::Rejected => 3,
                Status::Passed => 4,
                Status::Executed => 5,
            },
            expires: conv_exp(&p.expires),
            proposer: self.id(p.proposer.as_str()),
            deposit: p.deposit.as_ref().map(|d: &DepositInfo| {
                (d.amount.u128(), match &d.denom { Denom::Native(_) => Tok::Native, Denom::Cw20(_) => Tok::Cw20 }, d.refund_failed_proposals)
            }),
            threshold: thr,
            total,
            msgs: p.msgs.iter().map(|m| match self.from_cosmos(m) {
                EMsg::User(x) => x,
                _ => PMsg::Ok(u64::MAX - 3),
            }).collect(),
            ballots,
        }
    }

    pub fn genv(&self, extra_height: Option<u64>) -> GEnv {
        let mut g = GEnv::default();
        if let Some(group) = &self.group {
            let c = Cw4Contract(group.clone());
            let q = self.app.wrap();
            for (i, a) in self.pool.addrs.iter().enumerate() {
                if let Ok(Some(w)) = c.is_member(&q, a, None) {
                    g.now.push((i, w));
                }
            }
            g.total = c.total_weight(&q).unwrap_or(0);
            let mut hs: Vec<u64> = self.starts.iter().map(|x| x.1).collect();
            if let Some(h) = extra_height {
                hs.push(h);
            }
            hs.sort();
            hs.dedup();
            for (i, a) in self.pool.addrs.iter().enumerate() {
                for h in &hs {
                    let w = c.member_at_height(&q, a.to_string(), Some(*h)).unwrap_or(None);
                    g.at.push((i, *h, w));
                }
            }
            g.block_start = self.block_start.clone();
            g.changed = self.changed;
            g.snaps = self.snaps.clone();
        }
        g
    }

    fn enter_block(&mut self, h: u64, t: u64) {
        if h != self.height {
            self.block_start = self.group_members();
            self.changed = false;
        }
        self.height = h;
        self.time = t;
        set_block(&mut self.app, h, t);
    }

    pub fn group_update(&mut self, h: u64, t: u64, add: &[(usize, u64)], remove: &[usize]) -> bool {
        self.enter_block(h, t);
        let g = match &self.group {
            Some(g) => g.clone(),
            None => return false,
        };
        let msg = cw4_group::msg::ExecuteMsg::UpdateMembers {
            add: add.iter().map(|(a, w)| Member { addr: self.pool.addr(*a).to_string(), weight: *w }).collect(),
            remove: remove.iter().map(|a| self.pool.addr(*a).to_string()).collect(),
        };
        let gadmin = self.gadmin.clone();
        let app = &mut self.app;
        let ok = matches!(std::panic::catch_unwind(std::panic::AssertUnwindSafe(|| app.execute_contract(gadmin, g, &msg, &[]).is_ok())), Ok(true));
        if ok {
            self.changed = true;
        }
        ok
    }
    pub fn fund(&mut self, h: u64, t: u64, n: Uint128) {
        self.enter_block(h, t);
        let ms = self.ms.clone().unwrap();
        let from = self.creator.clone();
        self.app.init_modules(|router, _, storage| router.bank.init_balance(storage, &from, vec![coin(n.u128(), DENOM)]).unwrap());
        let _ = self.app.send_tokens(from, ms, &[Coin { denom: DENOM.into(), amount: n }]);
    }

    /// (genv, before, handler calls, ok, after)
    pub fn call(&mut self, h: u64, t: u64, s: usize, op: &Op) -> (GEnv, Obs, Vec<HCall>, bool, Obs) {
        self.enter_block(h, t);
        let ms = self.ms.clone().unwrap();
        let sender = self.pool.addr(s);
        // deposits in cw20: set the proposer's allowance for the multisig as the op says
        if let Op::Propose { allow: Some(a), .. } = op {
            let cur: cw20::AllowanceResponse = self.app.wrap().query_wasm_smart(&self.token, &cw20::Cw20QueryMsg::Allowance { owner: sender.to_string(), spender: ms.to_string() }).unwrap();
            if !cur.allowance.is_zero() {
                let _ = self.app.execute_contract(sender.clone(), self.token.clone(), &Cw20ExecuteMsg::DecreaseAllowance { spender: ms.to_string(), amount: cur.allowance, expires: None }, &[]);
            }
            if !a.is_zero() {
                let _ = self.app.execute_contract(sender.clone(), self.token.clone(), &Cw20ExecuteMsg::IncreaseAllowance { spender: ms.to_string(), amount: *a, expires: None }, &[]);
            }
        }
        let before = self.observe();
        let genv = self.genv(Some(h));
        LOG3.with(|l| l.borrow_mut().clear());
        let funds: Vec<Coin> = match op {
            Op::Propose { funds, .. } => funds.iter().map(|(d, n)| Coin { denom: if *d == 0 { DENOM.into() } else { "ubtc".into() }, amount: *n }).collect(),
            _ => vec![],
        };
        let res = {
            let flex = self.flex;
            let cosmos: Vec<CosmosMsg> = match op {
                Op::Propose { msgs, .. } => msgs.iter().map(|m| self.to_cosmos(m)).collect(),
                _ => vec![],
            };
            let app = &mut self.app;
            std::panic::catch_unwind(std::panic::AssertUnwindSafe(|| {
                if flex {
                    use cw3_flex_multisig::msg::ExecuteMsg as M;
                    let m = match op {
                        Op::Propose { title, latest, .. } => M::Propose { title: format!("t{}", title), description: "d".into(), msgs: cosmos.clone(), latest: latest.as_ref().map(to_exp) },
                        Op::Vote { id, v } => M::Vote { proposal_id: *id, vote: to_vote(v) },
                        Op::Execute { id } => M::Execute { proposal_id: *id },
                        Op::Close { id } => M::Close { proposal_id: *id },
                    };
                    app.execute_contract(sender.clone(), ms.clone(), &m, &funds).is_ok()
                } else {
                    use cw3_fixed_multisig::msg::ExecuteMsg as M;
                    let m = match op {
                        Op::Propose { title, latest, .. } => M::Propose { title: format!("t{}", title), description: "d".into(), msgs: cosmos.clone(), latest: latest.as_ref().map(to_exp) },
                        Op::Vote { id, v } => M::Vote { proposal_id: *id, vote: to_vote(v) },
                        Op::Execute { id } => M::Execute { proposal_id: *id },
                        Op::Close { id } => M::Close { proposal_id: *id },
                    };
                    app.execute_contract(sender.clone(), ms.clone(), &m, &funds).is_ok()
                }
            }))
        };
        let ok = matches!(res, Ok(true));
        let log = LOG3.with(|l| std::mem::take(&mut *l.borrow_mut()));
        let mut calls = vec![];
        for (k, (snd, lop, r)) in log.iter().enumerate() {
            let opx = match lop {
                LoggedOp::Propose { .. } => {
                    if k == 0 {
                        Some(op.clone())
                    } else {
                        None
                    }
                }
                LoggedOp::Vote { id, v } => Some(Op::Vote { id: *id, v: conv_vote(v) }),
                LoggedOp::Execute { id } => Some(Op::Execute { id: *id }),
                LoggedOp::Close { id } => Some(Op::Close { id: *id }),
                LoggedOp::Other => None,
            };
            let (hok, out) = match r {
                Ok(resp) => (true, self.classify_out(lop, resp, &before)),
                Err(_) => (false, vec![]),
            };
            calls.push(HCall { sender: self.id(snd), op: opx, hok, out });
        }
        let after = self.observe();
        if ok {
            if let Op::Propose { .. } = op {
                if let Some(p) = after.props.last() {
                    if after.props.len() > before.props.len() {
                        self.starts.push((p.id, h));
                        self.snaps.push((p.id, self.block_start.clone()));
                    }
                }
            }
        }
        (genv, before, calls, ok, after)
    }
}

pub enum Rec {
    Call { h: u64, t: u64, s: usize, op: Op, genv: GEnv, before: Obs, calls: Vec<HCall>, ok: bool, after: Obs },
    Skip,
}
pub struct Ran {
    pub trace: Trace,
    pub init_ok: bool,
    pub init_genv: GEnv,
    pub starts: Vec<(u64, u64)>,
    pub recs: Vec<Rec>,
    pub classes: Vec<String>,
    pub nsteps: usize,
}

fn status_name(s: u8) -> &'static str {
    match s {
        2 => "open",
        3 => "rejected",
        4 => "passed",
        5 => "executed",
        _ => "pending",
    }
}
fn op_class(flex: bool, op: &Op, calls: &[HCall], ok: bool, before: &Obs) -> String {
    let hok = calls.first().map(|c| c.hok).unwrap_or(false);
    let pre_status = |id: &u64| before.props.iter().find(|p| p.id == *id).map(|p| status_name(p.status)).unwrap_or("none");
    let k = match op {
        Op::Propose { msgs, .. } => format!("propose[{}]", msgs.len().min(2)),
        Op::Vote { id, v } => format!("vote[{:?}]@{}", v, pre_status(id)),
        Op::Execute { id } => format!("execute@{}", pre_status(id)),
        Op::Close { id } => format!("close@{}", pre_status(id)),
    };
    format!(
        "{}|{}|{}|nested={}",
        if flex { "flex" } else { "fixed" },
        k,
        if hok { if ok { "ok" } else { "accepted-then-rolled-back" } } else { "fail" },
        calls.len().saturating_sub(1).min(2)
    )
}

fn run_steps(w: &mut World, steps: &[Step], ran: &mut Ran) {
    for st in steps {
        match st {
            Step::Call { h, t, s, op } => {
                let (genv, before, calls, ok, after) = w.call(*h, *t, *s, op);
                ran.classes.push(op_class(w.flex, op, &calls, ok, &before));
                ran.recs.push(Rec::Call { h: *h, t: *t, s: *s, op: op.clone(), genv, before, calls, ok, after });
                ran.nsteps += 1;
            }
            Step::Group { h, t, add, remove } => {
                let ok = w.group_update(*h, *t, add, remove);
                ran.classes.push(format!("flex|group_update|{}", if ok { "ok" } else { "fail" }));
                ran.recs.push(Rec::Skip);
            }
            Step::Fund { h, t, n } => {
                w.fund(*h, *t, *n);
                ran.recs.push(Rec::Skip);
            }
        }
    }
    ran.starts = w.starts.clone();
}

pub fn replay(trace: &Trace) -> Ran {
    let mut w = World::new(trace.users, trace.init.h, trace.init.t);
    let init_ok = w.instantiate(&trace.init);
    let mut ran = Ran { trace: trace.clone(), init_ok, init_genv: GEnv::default(), starts: vec![], recs: vec![], classes: vec![], nsteps: 0 };
    ran.init_genv = w.genv(None);
    if !init_ok {
        return ran;
    }
    let steps = trace.steps.clone();
    run_steps(&mut w, &steps, &mut ran);
    ran
}

fn pick_thr(r: &mut Rng, total: u64) -> Thr {
    let pcts: [u128; 7] = [
        500_000_000_000_000_000, 500_000_000_000_000_001, 510_000_000_000_000_000, 666_666_666_666_666_667,
        750_000_000_000_000_000, 1_000_000_000_000_000_000, 490_000_000_000_000_000,
    ];
    match r.below(10) {
        0..=2 => Thr::Count(match r.below(6) {
            0 => 0,
            1 => total.saturating_add(1),
            2 => total,
            _ => 1 + r.below(total.max(1)),
        }),
        3..=5 => Thr::Pct(Uint128::new(*r.pick(&pcts))),
        _ => Thr::Quorum(
            Uint128::new(*r.pick(&pcts)),
            Uint128::new(match r.below(6) {
                0 => 0,
                1 => 1,
                2 => 1_000_000_000_000_000_000,
                3 => 300_000_000_000_000_000,
                4 => 800_000_000_000_000_000,
                _ => 400_000_000_000_000_000,
            }),
        ),
    }
}

pub fn generate(seed: u64, case: u64, max_steps: usize) -> Ran {
    let mut r = Rng::new(seed ^ case.wrapping_mul(0x9FB21C651E98DF25) ^ 0x3333);
    let users = 6;
    let h0 = 10 + r.below(5);
    let t0 = 1_000_000_000u64 * (100 + r.below(5));
    let mut w = World::new(users, h0, t0);
    let n = w.pool.len();
    let flex = r.chance(1, 2);
    let mut voters: Vec<(Arg, u64)> = vec![];
    let nv = 2 + r.below(4) as usize;
    let mut ids: Vec<usize> = (0..n).collect();
    for i in (1..ids.len()).rev() {
        let j = r.below(i as u64 + 1) as usize;
        ids.swap(i, j);
    }
    for k in 0..nv.min(n) {
        let wgt = match r.below(10) {
            0 => 0,
            1 => 1,
            2 => 15,
            _ => 1 + r.below(9),
        };
        voters.push((Arg::Id(ids[k]), wgt));
    }
    // a history near the 64-bit edge of the weights (sums that overflow, thresholds on huge totals)
    let big = r.chance(1, 6);
    if big {
        for v in voters.iter_mut() {
            v.1 = match r.below(6) {
                0 => u64::MAX - 3,
                1 => u64::MAX / 2,
                2 => 1u64 << 63,
                3 => 40_000_000_000,
                4 => 1 + r.below(5),
                _ => u64::MAX / 5,
            };
        }
    }
    if big && flex {
        // the group must exist: keep the members' sum within u64 (filling it exactly when it would overflow)
        let mut run = 0u64;
        for v in voters.iter_mut() {
            match run.checked_add(v.1) {
                Some(x) => run = x,
                None => {
                    v.1 = u64::MAX - run;
                    run = u64::MAX;
                }
            }
        }
    }
    if !flex && r.chance(1, 15) {
        let d = voters[0].clone();
        voters.push(d);
    }
    if !flex && r.chance(1, 40) {
        voters.push((Arg::Bad, 1));
    }
    if r.chance(1, 50) {
        voters.clear();
    }
    let total: u64 = voters.iter().fold(0u64, |a, v| a.saturating_add(v.1));
    let threshold = pick_thr(&mut r, total);
    let period = match r.below(8) {
        0 => Dur::T(3 + r.below(6)),
        1 => Dur::H(1),
        _ => Dur::H(3 + r.below(8)),
    };
    let executor = if flex {
        match r.below(4) {
            0 => Some(Exec::Member),
            1 => Some(Exec::Only(r.below(n as u64) as usize)),
            _ => None,
        }
    } else {
        None
    };
    let deposit = if flex && r.chance(1, 2) {
        Some(Dep {
            amount: Uint128::new(match r.below(8) {
                0 => 0,
                1 => 1,
                _ => 5 + r.below(20) as u128,
            }),
            tok: if r.chance(1, 2) { Tok::Native } else { Tok::Cw20 },
            refund: r.chance(2, 3),
        })
    } else {
        None
    };
    let init = Init { flex, voters: voters.clone(), threshold, period: period.clone(), executor, deposit: deposit.clone(), h: h0, t: t0 };
    let init_ok = w.instantiate(&init);
    let mut ran = Ran {
        trace: Trace { family: "cw3".into(), seed, case, users, init, steps: vec![] },
        init_ok,
        init_genv: GEnv::default(),
        starts: vec![],
        recs: vec![],
        classes: vec![],
        nsteps: 0,
    };
    ran.init_genv = w.genv(None);
    if !init_ok {
        return ran;
    }
    let member_ids: Vec<usize> = voters.iter().filter_map(|(a, _)| if let Arg::Id(i) = a { Some(*i) } else { None }).collect();
    let executor_set = ran.trace.init.executor.is_some();
    let sink = ids[n - 1];
    let nsteps = 1 + r.below(max_steps as u64) as usize;
    let mut title = 0u64;
    let mut last_after: Option<Obs> = None;
    // directed follow-ups (same block as the step that triggered them), consumed before random steps
    let mut pending: std::collections::VecDeque<Step> = Default::default();
    for _ in 0..nsteps {
        let (mut h, mut t) = (w.height, w.time);
        if pending.is_empty() && r.chance(1, 4) {
            let dh = 1 + r.below(3);
            h += dh;
            t += 1_000_000_000 * dh;
        }
        let props: Vec<PObs> = last_after.as_ref().map(|o| o.props.clone()).unwrap_or_default();
        let member = if !member_ids.is_empty() && r.chance(6, 7) { *r.pick(&member_ids) } else { r.below(n as u64) as usize };
        let pick_id = |r: &mut Rng| -> u64 {
            if props.is_empty() || r.chance(1, 15) {
                1 + r.below(4)
            } else {
                r.pick(&props).id
            }
        };
        let kind = r.below(100);
        let step = if let Some(st) = pending.pop_front() {
            st
        } else if flex && kind < (if big { 20 } else { 8 }) {
            let mut add = vec![];
            for _ in 0..r.below(3) {
                add.push((r.below(n as u64) as usize, if big && r.chance(1, 2) { [u64::MAX - 3, u64::MAX / 2, 1u64 << 62, 5][r.below(4) as usize] } else { 1 + r.below(12) }));
            }
            let mut remove = vec![];
            if r.chance(1, 2) && !member_ids.is_empty() {
                remove.push(*r.pick(&member_ids));
            }
            if add.len() == 2 && add[0].0 == add[1].0 {
                add.pop();
            }
            if r.chance(1, 4) {
                // swap the weights of two members: the total stays exactly where it was
                let gm = w.group_members();
                if gm.len() >= 2 {
                    let a = *r.pick(&gm);
                    let b = *r.pick(&gm);
                    if a.0 != b.0 && a.1 != b.1 {
                        add = vec![(a.0, b.1), (b.0, a.1)];
                        remove.clear();
                    }
                }
            }
            Step::Group { h, t, add, remove }
        } else if kind < 11 {
            Step::Fund { h, t, n: Uint128::new(500) }
        } else if kind < 35 || props.is_empty() {
            title += 1;
            let mut msgs = vec![];
            let nmsgs = if executor_set && props.iter().any(|p| p.status == 4) { 1 + r.below(2) } else { r.below(3) };
            for _ in 0..nmsgs {
                msgs.push(match r.below(12) {
                    0..=4 => PMsg::Bank {
                        to: sink,
                        n: Uint128::new(if r.chance(1, 6) {
                            5000
                        } else if r.chance(1, if matches!(&deposit, Some(d) if d.tok == Tok::Native && d.refund) { 2 } else { 6 }) {
                            // drain the multisig (deposits of other proposals included) down to a few coins
                            last_after.as_ref().map(|o| o.ms_native.saturating_sub(r.below(4) as u128)).unwrap_or(1000).max(1)
                        } else {
                            1 + r.below(30) as u128
                        }),
                    },
                    5 | 6 => {
                        // with an executor rule: preferably the re-entrant execution of another proposal that has passed
                        let passed: Vec<u64> = props.iter().filter(|p| p.status == 4).map(|p| p.id).collect();
                        if executor_set && !passed.is_empty() && r.chance(2, 3) {
                            PMsg::SelfExec(*r.pick(&passed))
                        } else {
                            PMsg::SelfExec(pick_id(&mut r))
                        }
                    }
                    7 => PMsg::SelfExec(props.len() as u64 + 1),
                    8 => PMsg::SelfClose(pick_id(&mut r)),
                    9 => PMsg::Fail(r.below(5)),
                    _ => PMsg::Ok(r.below(5)),
                });
            }
            let latest = match r.below(10) {
                0 => Some(Exp::Never),
                1 => Some(Exp::H(h + 1)),
                2 => Some(Exp::H(h)),
                3 => Some(Exp::T(t + 1_500_000_000)),
                4 => Some(Exp::H(h + 100)),
                5 => Some(Exp::H(h.saturating_sub(1))),
                _ => None,
            };
            let (funds, allow) = match &deposit {
                Some(d) if d.tok == Tok::Native => (
                    match r.below(10) {
                        0 => vec![],
                        1 => vec![(0, d.amount + Uint128::new(1))],
                        2 => vec![(0, Uint128::new(d.amount.u128().saturating_sub(1).max(1)))],
                        3 => vec![(1, d.amount.max(Uint128::new(1)))],
                        4 => vec![(0, d.amount.max(Uint128::new(1))), (1, Uint128::new(1))],
                        _ => vec![(0, d.amount.max(Uint128::new(1)))],
                    },
                    None,
                ),
                Some(d) => (
                    if r.chance(1, 12) { vec![(0, Uint128::new(3))] } else { vec![] },
                    Some(match r.below(8) {
                        0 => Uint128::zero(),
                        1 => Uint128::new(d.amount.u128().saturating_sub(1)),
                        2 => d.amount + Uint128::new(7),
                        _ => d.amount,
                    }),
                ),
                None => (if r.chance(1, 15) { vec![(0, Uint128::new(3))] } else { vec![] }, None),
            };
            // a member of weight 0 may propose (its implicit Yes weighs nothing): make sure it happens
            let zero_members: Vec<usize> = voters.iter().filter_map(|(a, wt)| match a { Arg::Id(i) if *wt == 0 => Some(*i), _ => None }).collect();
            let proposer = if !zero_members.is_empty() && r.chance(1, 3) { *r.pick(&zero_members) } else { member };
            Step::Call { h, t, s: proposer, op: Op::Propose { title, msgs, latest, funds, allow } }
        } else if kind < 70 {
            let v = match r.below(10) {
                0..=4 => V::Yes,
                5 | 6 => V::No,
                7 | 8 => V::Abstain,
                _ => V::Veto,
            };
            let open: Vec<&PObs> = props.iter().filter(|p| p.status == 2 || (p.status == 4 && r.0 % 5 == 0)).collect();
            let (id, voter) = if !open.is_empty() && r.chance(5, 6) {
                let p = *r.pick(&open);
                let fresh: Vec<usize> = member_ids.iter().cloned().filter(|m| !p.ballots.iter().any(|b| b.0 == *m)).collect();
                (p.id, if !fresh.is_empty() && r.chance(7, 8) { *r.pick(&fresh) } else { member })
            } else {
                (pick_id(&mut r), member)
            };
            Step::Call { h, t, s: voter, op: Op::Vote { id, v } }
        } else if kind < 86 {
            let passed: Vec<u64> = props.iter().filter(|p| p.status == 4).map(|p| p.id).collect();
            let id = if !passed.is_empty() && r.chance(3, 4) { *r.pick(&passed) } else { pick_id(&mut r) };
            Step::Call { h, t, s: if r.chance(3, 4) { member } else { r.below(n as u64) as usize }, op: Op::Execute { id } }
        } else {
            Step::Call { h, t, s: r.below(n as u64) as usize, op: Op::Close { id: pick_id(&mut r) } }
        };
        let one = [step.clone()];
        run_steps(&mut w, &one, &mut ran);
        let mut new_prop: Option<(u64, usize)> = None;
        if let Some(Rec::Call { after, before, ok, .. }) = ran.recs.last() {
            if *ok && after.props.len() > before.props.len() {
                if let Some(p) = after.props.last() {
                    new_prop = Some((p.id, p.proposer));
                }
            }
            last_after = Some(after.clone());
        }
        if flex && pending.is_empty() {
            match &step {
                // a membership change right after the proposal, in its own block, then a vote by the changed member
                // refundable native deposit: a second proposal drains the multisig (its own deposit is returned first), is
                // voted through and executed; the first one is closed after it has expired, while the balance is short
                Step::Call { h, t, op: Op::Propose { .. }, .. }
                    if new_prop.is_some() && matches!(&deposit, Some(d) if d.tok == Tok::Native && d.refund && !d.amount.is_zero()) && r.chance(1, 3) =>
                {
                    let (pid, proposer) = new_prop.unwrap();
                    let d = deposit.as_ref().unwrap().amount;
                    let others: Vec<usize> = member_ids.iter().cloned().filter(|m| *m != proposer).collect();
                    if !others.is_empty() {
                        let m2 = others[0];
                        let bal = last_after.as_ref().map(|o| o.ms_native).unwrap_or(0);
                        let n = Uint128::new(bal.saturating_sub(r.below(d.u128().min(5) as u64) as u128).max(1));
                        title += 1;
                        pending.push_back(Step::Call {
                            h: *h,
                            t: *t,
                            s: m2,
                            op: Op::Propose { title, msgs: vec![PMsg::Bank { to: sink, n }], latest: None, funds: vec![(0, d)], allow: None },
                        });
                        for m in member_ids.iter().cloned().filter(|m| *m != m2) {
                            pending.push_back(Step::Call { h: *h, t: *t, s: m, op: Op::Vote { id: pid + 1, v: V::Yes } });
                        }
                        pending.push_back(Step::Call { h: *h, t: *t, s: m2, op: Op::Execute { id: pid + 1 } });
                        pending.push_back(Step::Call { h: *h + 12, t: *t + 12_000_000_000, s: m2, op: Op::Close { id: pid } });
                    }
                }
                // a full round: every other member votes at once (abstentions and vetoes well represented),
                // so that quorum and threshold boundaries are reached, then somebody tries to execute
                Step::Call { h, t, op: Op::Propose { .. }, .. }
                    if new_prop.is_some()
                        && (r.chance(1, if matches!(ran.trace.init.threshold, Thr::Quorum(..)) && matches!(&deposit, Some(d) if !d.refund) {
                            1 // the one configuration in which a proposal can pass by the end of its period alone and keep its deposit
                        } else if matches!(ran.trace.init.threshold, Thr::Quorum(..)) || matches!(&deposit, Some(d) if !d.refund) {
                            2
                        } else {
                            5
                        }) || (voters.iter().any(|(a, wt)| *a == Arg::Id(new_prop.unwrap().1) && *wt == 0) && r.chance(1, 2))) =>
                {
                    let (pid, proposer) = new_prop.unwrap();
                    let zero_proposer = voters.iter().any(|(a, wt)| *a == Arg::Id(proposer) && *wt == 0);
                    // 0, 1: mixed; 2: everybody abstains; 3: yes votes first, vetoes last
                    let mode = if zero_proposer && r.chance(1, 2) {
                        2
                    } else if matches!(&deposit, Some(d) if !d.refund) && r.chance(if matches!(ran.trace.init.threshold, Thr::Quorum(..)) { 3 } else { 1 }, 4) {
                        4 // with deposits kept from failed proposals: a proposal that passes only when the period ends
                    } else if matches!(ran.trace.init.threshold, Thr::Quorum(..)) && r.chance(3, 5) {
                        3
                    } else {
                        r.below(5) // 4: only the first half of the members vote (Yes): decided only when the period ends
                    };
                    let mut others: Vec<usize> = member_ids.iter().cloned().filter(|m| *m != proposer).collect();
                    if mode == 4 {
                        // light voters first, and only as long as the Yes weight stays below the threshold share of the
                        // total: not decided while voting is open, decided by the cast votes alone when it ends
                        let wt = |m: usize| voters.iter().find(|(a, _)| *a == Arg::Id(m)).map(|x| x.1 as u128).unwrap_or(0);
                        others.sort_by_key(|m| wt(*m));
                        let th = match &ran.trace.init.threshold {
                            Thr::Pct(p) | Thr::Quorum(p, _) => p.u128(),
                            Thr::Count(_) => 500_000_000_000_000_000,
                        };
                        let tot: u128 = voters.iter().map(|x| x.1 as u128).sum();
                        let mut yes = wt(proposer);
                        let mut keep = vec![];
                        for m in others.iter().cloned() {
                            if (yes + wt(m)).saturating_mul(1_000_000_000_000_000_000) < th.saturating_mul(tot) {
                                yes += wt(m);
                                keep.push(m);
                            }
                        }
                        others = keep;
                        if r.chance(1, 3) {
                            others.clear(); // nobody but the proposer: decided by the proposer's own Yes when the period ends
                        }
                    }
                    for (k, m) in others.iter().cloned().enumerate() {
                        let v = match mode {
                            4 => V::Yes,
                            2 => V::Abstain,
                            3 => {
                                if 2 * k < others.len() {
                                    V::Yes
                                } else {
                                    V::Veto
                                }
                            }
                            _ => match r.below(10) {
                                0..=3 => V::Yes,
                                4 => V::No,
                                5 | 6 => V::Abstain,
                                _ => V::Veto,
                            },
                        };
                        pending.push_back(Step::Call { h: *h, t: *t, s: m, op: Op::Vote { id: pid, v } });
                    }
                    if mode == 4 || r.chance(1, 3) {
                        // ... only after the voting period has ended (a proposal that passes only at expiry)
                        pending.push_back(Step::Call { h: *h + 12, t: *t + 12_000_000_000, s: proposer, op: Op::Execute { id: pid } });
                    } else {
                        pending.push_back(Step::Call { h: *h, t: *t, s: proposer, op: Op::Execute { id: pid } });
                    }
                }
                Step::Call { h, t, op: Op::Propose { .. }, .. } if new_prop.is_some() && r.chance(1, 4) => {
                    let (pid, proposer) = new_prop.unwrap();
                    let others: Vec<usize> = member_ids.iter().cloned().filter(|m| *m != proposer).collect();
                    if !others.is_empty() {
                        let m = *r.pick(&others);
                        let (add, remove) = if r.chance(1, 3) { (vec![], vec![m]) } else { (vec![(m, 1 + r.below(12))], vec![]) };
                        pending.push_back(Step::Group { h: *h, t: *t, add, remove });
                        pending.push_back(Step::Call { h: *h, t: *t, s: m, op: Op::Vote { id: pid, v: V::Yes } });
                    }
                }
                // the other placement of a same-block change: the group changes first, then a member whose weight was just
                // changed proposes in that block (the known class D3), and the round of votes follows
                Step::Group { h, t, add, .. } if !add.is_empty() && w.changed && r.chance(1, 3) => {
                    title += 1;
                    let who = add[0].0;
                    let (funds, allow) = match &deposit {
                        Some(d) if d.tok == Tok::Native => (vec![(0, d.amount.max(Uint128::new(1)))], None),
                        Some(d) => (vec![], Some(d.amount)),
                        None => (vec![], None),
                    };
                    pending.push_back(Step::Call { h: *h, t: *t, s: who, op: Op::Propose { title, msgs: vec![], latest: None, funds, allow } });
                    let pid = last_after.as_ref().map(|o| o.props.len() as u64).unwrap_or(0) + 1;
                    for m in member_ids.iter().cloned().filter(|m| *m != who) {
                        let v = if r.chance(1, 3) { V::No } else { V::Yes };
                        pending.push_back(Step::Call { h: *h + 1, t: *t + 1_000_000_000, s: m, op: Op::Vote { id: pid, v } });
                    }
                }
                // a member removed from the group tries to execute a passed proposal in the block of its removal
                Step::Group { h, t, remove, .. } if !remove.is_empty() && w.changed && r.chance(1, 2) => {
                    if let Some(o) = &last_after {
                        let passed: Vec<u64> = o.props.iter().filter(|p| p.status == 4).map(|p| p.id).collect();
                        if !passed.is_empty() {
                            pending.push_back(Step::Call { h: *h, t: *t, s: remove[0], op: Op::Execute { id: *r.pick(&passed) } });
                        }
                    }
                }
                // class D3 with a removal: a member is removed, another one proposes in the same block (the recorded total
                // no longer includes the removed weight), the removed member - still in the snapshot - votes No first,
                // then the others vote Yes
                Step::Group { h, t, remove, .. } if !remove.is_empty() && w.changed && r.chance(1, 2) => {
                    let gone = remove[0];
                    let stay: Vec<usize> = member_ids.iter().cloned().filter(|m| *m != gone).collect();
                    if !stay.is_empty() {
                        title += 1;
                        let who = stay[0];
                        let (funds, allow) = match &deposit {
                            Some(d) if d.tok == Tok::Native => (vec![(0, d.amount.max(Uint128::new(1)))], None),
                            Some(d) => (vec![], Some(d.amount)),
                            None => (vec![], None),
                        };
                        pending.push_back(Step::Call { h: *h, t: *t, s: who, op: Op::Propose { title, msgs: vec![], latest: None, funds, allow } });
                        let pid = last_after.as_ref().map(|o| o.props.len() as u64).unwrap_or(0) + 1;
                        pending.push_back(Step::Call { h: *h + 1, t: *t + 1_000_000_000, s: gone, op: Op::Vote { id: pid, v: V::No } });
                        for m in stay.iter().cloned().filter(|m| *m != who) {
                            pending.push_back(Step::Call { h: *h + 1, t: *t + 1_000_000_000, s: m, op: Op::Vote { id: pid, v: V::Yes } });
                        }
                        pending.push_back(Step::Call { h: *h + 1, t: *t + 1_000_000_000, s: who, op: Op::Execute { id: pid } });
                    }
                }
                _ => {}
            }
            // an executor rule and a passed proposal B waiting: a proposal A carrying the re-entrant Execute{B} is
            // proposed, voted through by everybody and executed by an authorised caller (B's execution, nested
            // inside, is then requested by the multisig itself, which no executor rule authorises)
            if pending.is_empty() && executor_set && r.chance(1, 4) {
                if let Some(o) = &last_after {
                    let passed: Vec<u64> = o.props.iter().filter(|p| p.status == 4).map(|p| p.id).collect();
                    if !passed.is_empty() && !member_ids.is_empty() {
                        let (h, t) = (w.height, w.time);
                        let who = member_ids[0];
                        let caller = match &ran.trace.init.executor {
                            Some(Exec::Only(x)) => *x,
                            _ => who,
                        };
                        let (funds, allow) = match &deposit {
                            Some(d) if d.tok == Tok::Native => (vec![(0, d.amount.max(Uint128::new(1)))], None),
                            Some(d) => (vec![], Some(d.amount)),
                            None => (vec![], None),
                        };
                        title += 1;
                        let pid = o.props.len() as u64 + 1;
                        pending.push_back(Step::Call { h, t, s: who, op: Op::Propose { title, msgs: vec![PMsg::SelfExec(*r.pick(&passed))], latest: None, funds, allow } });
                        for m in member_ids.iter().cloned().filter(|m| *m != who) {
                            pending.push_back(Step::Call { h, t, s: m, op: Op::Vote { id: pid, v: V::Yes } });
                        }
                        pending.push_back(Step::Call { h, t, s: caller, op: Op::Execute { id: pid } });
                    }
                }
            }
            // executor = any member: remove a member and let it try to execute a passed proposal in the same block
            if pending.is_empty() && matches!(ran.trace.init.executor, Some(Exec::Member)) && r.chance(1, 4) {
                if let Some(o) = &last_after {
                    let passed: Vec<u64> = o.props.iter().filter(|p| p.status == 4).map(|p| p.id).collect();
                    let members = w.group_members();
                    if !passed.is_empty() && !members.is_empty() {
                        let m = r.pick(&members).0;
                        let (h, t) = (w.height, w.time);
                        pending.push_back(Step::Group { h, t, add: vec![], remove: vec![m] });
                        pending.push_back(Step::Call { h, t, s: m, op: Op::Execute { id: *r.pick(&passed) } });
                    }
                }
            }
        }
        ran.trace.steps.push(step);
    }
    ran
}

// ---- Coq emission
fn c_arg(a: &Arg) -> String {
    match a {
        Arg::Id(i) => format!("(Some {})", i),
        Arg::Bad => "None".into(),
    }
}
fn c_exp(e: &Exp) -> String {
    match e {
        Exp::H(h) => format!("(AtHeight {})", h),
        Exp::T(t) => format!("(AtTime {})", t),
        Exp::Never => "Never".into(),
    }
}
fn c_thr(t: &Thr) -> String {
    match t {
        Thr::Count(w) => format!("(AbsCount {})", w),
        Thr::Pct(p) => format!("(AbsPct {})", p),
        Thr::Quorum(t, q) => format!("(ThQuorum {} {})", t, q),
    }
}
fn c_pmsg(m: &PMsg) -> String {
    match m {
        PMsg::Bank { to, n } => format!("(PBank {} {})", to, n),
        PMsg::SelfExec(i) => format!("(PSelfExec {})", i),
        PMsg::SelfClose(i) => format!("(PSelfClose {})", i),
        PMsg::Ok(t) => format!("(POk {})", t),
        PMsg::Fail(t) => format!("(PFail {})", t),
    }
}
fn c_tok(t: &Tok) -> &'static str {
    match t {
        Tok::Native => "(Native 0)",
        Tok::Cw20 => "(Cw20 2000)",
    }
}
fn c_dep3(d: &(u128, Tok, bool)) -> String {
    format!("(mkDep {} {} {})", d.0, c_tok(&d.1), b(d.2))
}
fn c_vote(v: &V) -> &'static str {
    match v {
        V::Yes => "VYes",
        V::No => "VNo",
        V::Abstain => "VAbstain",
        V::Veto => "VVeto",
    }
}
fn c_status(s: u8) -> &'static str {
    match s {
        2 => "Open",
        3 => "Rejected",
        4 => "Passed",
        5 => "Executed",
        _ => "Pending",
    }
}
fn c_op(op: &Op) -> String {
    match op {
        Op::Propose { title, msgs, latest, funds, .. } => format!(
            "(Propose {} {} {} {})",
            title,
            list(msgs, c_pmsg),
            opt(latest, c_exp),
            list(funds, |(d, n)| format!("({}, {})", d, n))
        ),
        Op::Vote { id, v } => format!("(Vote {} {})", id, c_vote(v)),
        Op::Execute { id } => format!("(Execute {})", id),
        Op::Close { id } => format!("(Close {})", id),
    }
}
fn c_emsg(m: &EMsg) -> String {
    match m {
        EMsg::Take { owner, n } => format!("(ETake 2000 {} {})", owner, n),
        EMsg::Refund { tok, to, n } => format!("(ERefund {} {} {})", c_tok(tok), to, n),
        EMsg::User(p) => format!("(EUser {})", c_pmsg(p)),
    }
}
fn c_pobs(p: &PObs) -> String {
    format!(
        "(mkPo {} {} {} {} {} {} {} {} {} {})",
        p.id,
        p.title,
        c_status(p.status),
        c_exp(&p.expires),
        p.proposer,
        opt(&p.deposit, c_dep3),
        c_thr(&p.threshold),
        p.total,
        list(&p.msgs, c_pmsg),
        list(&p.ballots, |(a, w, v)| format!("({}, ({}, {}))", a, w, c_vote(v)))
    )
}
fn c_nn<T: std::fmt::Display, U: std::fmt::Display>(v: &[(T, U)]) -> String {
    list(v, |(a, x)| format!("({}, {})", a, x))
}
fn c_obs(o: &Obs) -> String {
    format!(
        "(mkObs {} {} {} {} {} {} {})",
        list(&o.props, c_pobs),
        c_nn(&o.voters),
        o.ms_native,
        o.ms_cw20,
        c_nn(&o.native),
        c_nn(&o.cw20),
        list(&o.view_bad, |x| x.to_string())
    )
}
fn c_genv(g: &GEnv) -> String {
    format!(
        "(mkGe {} {} {} {} {} {})",
        c_nn(&g.now),
        g.total,
        list(&g.at, |(a, h, w)| format!("({}, {}, {})", a, h, opt(w, |x| x.to_string()))),
        c_nn(&g.block_start),
        b(g.changed),
        list(&g.snaps, |(id, m)| format!("({}, {})", id, c_nn(m)))
    )
}
fn c_hcall(c: &HCall) -> String {
    format!(
        "(HCall {} {} {} {})",
        c.sender,
        match &c.op {
            Some(o) => c_op(o),
            None => "(Close 0)".to_string(),
        },
        b(c.hok),
        list(&c.out, c_emsg)
    )
}
pub fn to_coq(ran: &Ran) -> String {
    let i = &ran.trace.init;
    let init = format!(
        "(mkInit {} {} {} {} {} {} true)",
        b(i.flex),
        if i.flex { "[]".to_string() } else { list(&i.voters, |(a, w)| format!("({}, {})", c_arg(a), w)) },
        c_thr(&i.threshold),
        match i.period {
            Dur::H(n) => format!("(DHeight {})", n),
            Dur::T(n) => format!("(DTime {})", n),
        },
        opt(&i.executor, |e| match e {
            Exec::Member => "ExMember".to_string(),
            Exec::Only(a) => format!("(ExOnly {})", a),
        }),
        opt(&i.deposit, |d| format!("(mkDep {} {} {})", d.amount, c_tok(&d.tok), b(d.refund)))
    );
    let mut steps = vec![];
    for rec in &ran.recs {
        if let Rec::Call { h, t, s, op, genv, before, calls, ok, after } = rec {
            steps.push(format!(
                "TCall (mkBlock {} {}) {} {} {} {} {} {} {}",
                h,
                t,
                s,
                c_op(op),
                c_genv(genv),
                c_obs(before),
                list(calls, c_hcall),
                b(*ok),
                c_obs(after)
            ));
        }
    }
    format!(
        "mkTrace {} {} {} {} {} [{}]",
        init,
        c_genv(&ran.init_genv),
        SELF_ID,
        b(ran.init_ok),
        c_nn(&ran.starts),
        steps.join(";\n  ")
    )
}

pub const COQ_HEADER: &str = "Require Import CwPlus.Base CwPlus.AMap CwPlus.Cw3Threshold CwPlus.Cw4Model CwPlus.Cw3Model CwPlus.Cw3Check.\nOpen Scope N_scope.\n";

pub fn class_counts(rans: &[Ran]) -> BTreeMap<String, u64> {
    let mut m = BTreeMap::new();
    for r in rans {
        *m.entry(format!("instantiate|{}|{}", if r.trace.init.flex { "flex" } else { "fixed" }, if r.init_ok { "ok" } else { "fail" })).or_insert(0) += 1;
        for c in &r.classes {
            *m.entry(c.clone()).or_insert(0) += 1;
        }
    }
    m
}
