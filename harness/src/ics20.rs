//! ics20 family (C11, C12, C18): cw20-ics20 on cw-multi-test with an IBC-accepting chain; the IBC entry
//! points are driven through a sudo adaptor defined here.
use crate::coqfmt::{b, list, opt};
use crate::rng::Rng;
use crate::world::{Pool, INVALID_ADDR};
use cosmwasm_std::{
    coin, from_json, to_json_binary, Addr, BankMsg, Binary, BlockInfo, Coin, CosmosMsg, Deps, DepsMut, Empty, Env, IbcAcknowledgement,
    IbcChannel, IbcChannelConnectMsg, IbcEndpoint, IbcMsg, IbcOrder, IbcPacket, IbcPacketAckMsg, IbcPacketReceiveMsg,
    IbcPacketTimeoutMsg, IbcTimeout, MessageInfo, Reply, Response, StdError, StdResult, SubMsg, Timestamp, Uint128, WasmMsg,
};
use cw20::{Cw20Coin, Cw20ExecuteMsg, Cw20ReceiveMsg};
use cw20_ics20::amount::Amount;
use cw20_ics20::ibc::{Ics20Ack, Ics20Packet};
use cw20_ics20::msg::{
    AllowMsg, ChannelResponse, ConfigResponse, ExecuteMsg, InitMsg, ListAllowedResponse, ListChannelsResponse, MigrateMsg, QueryMsg,
    TransferMsg,
};
use cw_multi_test::{
    App, AppBuilder, BankKeeper, ContractWrapper, DistributionKeeper, Executor, FailingModule, GovFailingModule, IbcAcceptingModule,
    MockApiBech32, StakeKeeper, StargateFailingModule, WasmKeeper,
};
use cosmwasm_std::testing::{MockApi, MockStorage};
use serde::{Deserialize, Serialize};
use std::cell::RefCell;
use std::collections::BTreeMap;

type IApp = App<
    BankKeeper,
    MockApi,
    MockStorage,
    FailingModule<Empty, Empty, Empty>,
    WasmKeeper<Empty, Empty>,
    StakeKeeper,
    DistributionKeeper,
    IbcAcceptingModule,
    GovFailingModule,
    StargateFailingModule,
>;
#[allow(dead_code)]
type Unused = MockApiBech32;

const NATIVES: [&str; 2] = ["uatom", "ubtc"]; // native denom ids 0, 1 -> keys 0, 2
const RICH: u128 = 1u128 << 100;
const REMOTE_PORT: &str = "transfer";
const ANOMALY: usize = 999_999;

#[derive(Serialize, Deserialize, Clone, Debug, PartialEq)]
pub enum Arg {
    Id(usize),
    Bad,
}
#[derive(Serialize, Deserialize, Clone, Debug, PartialEq)]
pub enum Den {
    Plain(usize),    // NATIVES[i]
    Prefixed(usize), // "cw20:" ++ address of pool id
}
#[derive(Serialize, Deserialize, Clone, Debug, PartialEq)]
pub struct TMsg {
    pub chan: u64,
    pub remote: u64,
    pub timeout: Option<u64>,
    pub memo: Option<u64>,
}
#[derive(Serialize, Deserialize, Clone, Debug, PartialEq)]
pub enum Base {
    Key(u64), // model key: 2d native, 2a+1 cw20
    BadCw20,
}
#[derive(Serialize, Deserialize, Clone, Debug, PartialEq)]
pub enum PDen {
    Voucher { port: u64, chan: u64, base: Base },
    Malformed(u8),
}
#[derive(Serialize, Deserialize, Clone, Debug, PartialEq)]
pub struct PData {
    pub amount: Uint128,
    pub denom: PDen,
    pub receiver: Arg,
    pub memo: Option<u64>,
}
#[derive(Serialize, Deserialize, Clone, Debug, PartialEq)]
pub enum Op {
    Transfer { t: TMsg, funds: Vec<(Den, Uint128)> },
    Receive { from: Arg, n: Uint128, t: Option<TMsg>, funds: bool },
    Allow { c: Arg, gas: Option<u64> },
    UpdateAdmin { a: Arg },
}
#[derive(Serialize, Deserialize, Clone, Debug)]
pub enum Step {
    Exec { h: u64, t: u64, s: usize, op: Op },
    Send { h: u64, t: u64, tok: usize, user: usize, n: Uint128, tm: Option<TMsg> },
    Recv { h: u64, t: u64, src_port: u64, src_chan: u64, dest_chan: u64, data: Option<PData> },
    AckOk { h: u64, t: u64, idx: usize },
    Fail { h: u64, t: u64, idx: usize, timeout: bool },
    Donate { k: u64, n: Uint128 },
    SetVersion { v: u8 }, // 1 = V1 layout, 2 = V2 (0.13.0), 3 = V3 (1.0.0), 4 = too old, 5 = newer, 6 = other contract
    Migrate { h: u64, t: u64, gas: Option<u64> },
}
#[derive(Serialize, Deserialize, Clone, Debug)]
pub struct Init {
    pub timeout: u64,
    pub gas: Option<u64>,
    pub gov: Arg,
    pub allow: Vec<(Arg, Option<u64>)>,
    pub channels: Vec<(u64, u64)>, // (local channel id, remote channel id)
    pub h: u64,
    pub t: u64,
}
#[derive(Serialize, Deserialize, Clone, Debug)]
pub struct Trace {
    pub family: String,
    pub seed: u64,
    pub case: u64,
    pub users: usize,
    pub init: Init,
    pub steps: Vec<Step>,
}

// ---- sudo adaptor and logging
#[derive(Serialize, Deserialize, Clone, Debug, PartialEq, schemars::JsonSchema)]
pub enum SudoMsg {
    Connect(IbcChannelConnectMsg),
    Receive(IbcPacketReceiveMsg),
    Ack(IbcPacketAckMsg),
    Timeout(IbcPacketTimeoutMsg),
    RawSet { key: Binary, value: Binary },
    RawRemove { key: Binary },
}
#[derive(Clone, Debug)]
pub enum Logged {
    Exec(Result<Response, String>),
    Recv { ack: Option<Binary>, msgs: Vec<SubMsg> },
    Basic(Result<Vec<SubMsg>, String>),
}
thread_local! {
    static LOGI: RefCell<Vec<Logged>> = RefCell::new(vec![]);
}
fn ics_execute(deps: DepsMut, env: Env, info: MessageInfo, msg: ExecuteMsg) -> Result<Response, cw20_ics20::ContractError> {
    let r = cw20_ics20::contract::execute(deps, env, info, msg);
    LOGI.with(|l| l.borrow_mut().push(Logged::Exec(r.as_ref().map(|x| x.clone()).map_err(|e| e.to_string()))));
    r
}
fn ics_instantiate(deps: DepsMut, env: Env, info: MessageInfo, msg: InitMsg) -> Result<Response, cw20_ics20::ContractError> {
    cw20_ics20::contract::instantiate(deps, env, info, msg)
}
fn ics_query(deps: Deps, env: Env, msg: QueryMsg) -> StdResult<Binary> {
    cw20_ics20::contract::query(deps, env, msg)
}
fn ics_reply(deps: DepsMut, env: Env, msg: Reply) -> Result<Response, cw20_ics20::ContractError> {
    cw20_ics20::ibc::reply(deps, env, msg)
}
fn ics_migrate(deps: DepsMut, env: Env, msg: MigrateMsg) -> Result<Response, cw20_ics20::ContractError> {
    cw20_ics20::contract::migrate(deps, env, msg)
}
fn ics_sudo(deps: DepsMut, env: Env, msg: SudoMsg) -> Result<Response, StdError> {
    match msg {
        SudoMsg::Connect(m) => cw20_ics20::ibc::ibc_channel_connect(deps, env, m)
            .map(|_| Response::new())
            .map_err(|e| StdError::generic_err(e.to_string())),
        SudoMsg::Receive(m) => {
            // the entry point's error type is `Never`
            let r = match cw20_ics20::ibc::ibc_packet_receive(deps, env, m) {
                Ok(r) => r,
                Err(_) => return Err(StdError::generic_err("never")),
            };
            LOGI.with(|l| l.borrow_mut().push(Logged::Recv { ack: r.acknowledgement.clone(), msgs: r.messages.clone() }));
            let mut resp = Response::new().add_submessages(r.messages);
            if let Some(a) = r.acknowledgement {
                resp = resp.set_data(a);
            }
            Ok(resp)
        }
        SudoMsg::Ack(m) => {
            let r = cw20_ics20::ibc::ibc_packet_ack(deps, env, m);
            LOGI.with(|l| l.borrow_mut().push(Logged::Basic(r.as_ref().map(|x| x.messages.clone()).map_err(|e| e.to_string()))));
            r.map(|x| Response::new().add_submessages(x.messages)).map_err(|e| StdError::generic_err(e.to_string()))
        }
        SudoMsg::Timeout(m) => {
            let r = cw20_ics20::ibc::ibc_packet_timeout(deps, env, m);
            LOGI.with(|l| l.borrow_mut().push(Logged::Basic(r.as_ref().map(|x| x.messages.clone()).map_err(|e| e.to_string()))));
            r.map(|x| Response::new().add_submessages(x.messages)).map_err(|e| StdError::generic_err(e.to_string()))
        }
        SudoMsg::RawSet { key, value } => {
            deps.storage.set(key.as_slice(), value.as_slice());
            Ok(Response::new())
        }
        SudoMsg::RawRemove { key } => {
            deps.storage.remove(key.as_slice());
            Ok(Response::new())
        }
    }
}

#[derive(Clone, Debug, PartialEq)]
pub struct OutPacket {
    pub chan: u64,
    pub amount: u128,
    pub key: u64,
    pub sender: usize,
    pub receiver: u64,
    pub memo: Option<u64>,
    pub timeout: u64,
    pub raw: Option<Binary>, // the data as sent, for acks
}
#[derive(Clone, Debug, PartialEq)]
pub enum Msg {
    Send(OutPacket),
    Payout { key: u64, to: Arg, n: u128, gas: Option<u64> },
    Other,
}
#[derive(Clone, Debug, Default)]
pub struct Obs {
    pub admin: Option<usize>,
    pub timeout: u64,
    pub gas: Option<u64>,
    pub allow: Vec<(usize, Option<u64>)>,
    pub chan: Vec<(u64, u64, u128, u128)>,
    pub hold: Vec<(u64, u128)>,
    pub bal: Vec<(usize, u64, u128)>,
}

pub struct World {
    pub app: IApp,
    pub pool: Pool,
    pub users: Vec<Addr>,
    pub tokens: Vec<Addr>,
    pub ics: Option<Addr>,
    pub code: u64,
    pub creator: Addr,
    pub height: u64,
    pub time: u64,
    pub sent: Vec<OutPacket>,
    pub remote_of: BTreeMap<u64, u64>,
    pub keys: Vec<u64>,
    /// native denominations by model id (key = 2 * id); the third one is named like a cw20 voucher of token 0 but for the case of its prefix
    pub natives: Vec<String>,
}

fn set_block(app: &mut IApp, height: u64, time_ns: u64) {
    app.set_block(BlockInfo { height, time: Timestamp::from_nanos(time_ns), chain_id: "verif".to_string() });
}
fn chan_name(c: u64) -> String {
    format!("channel-{}", c)
}
fn parse_suffix(s: &str, prefix: &str) -> u64 {
    s.strip_prefix(prefix).and_then(|x| x.parse().ok()).unwrap_or(u64::MAX)
}

impl World {
    pub fn new(nusers: usize, h: u64, t: u64) -> World {
        let api = MockApi::default();
        let creator = api.addr_make("creator");
        let users: Vec<Addr> = (0..nusers).map(|i| api.addr_make(&format!("user{}", i))).collect();
        let us = users.clone();
        let mut app: IApp = AppBuilder::new().with_ibc(IbcAcceptingModule::new()).build(|router, _, storage| {
            for u in &us {
                let coins: Vec<Coin> = NATIVES.iter().map(|d| coin(RICH, *d)).collect();
                router.bank.init_balance(storage, u, coins).unwrap();
            }
        });
        set_block(&mut app, h, t);
        let c20 = app.store_code(Box::new(ContractWrapper::new(
            cw20_base::contract::execute,
            cw20_base::contract::instantiate,
            cw20_base::contract::query,
        )));
        let mut tokens = vec![];
        for i in 0..2 {
            let msg = cw20_base::msg::InstantiateMsg {
                name: format!("token{}", i),
                symbol: "TOK".into(),
                decimals: 6,
                initial_balances: users.iter().map(|u| Cw20Coin { address: u.to_string(), amount: Uint128::new(RICH) }).collect(),
                mint: None,
                marketing: None,
            };
            tokens.push(app.instantiate_contract(c20, creator.clone(), &msg, &[], format!("tok{}", i), None).unwrap());
        }
        let mut all = users.clone();
        all.extend(tokens.iter().cloned());
        let pool = Pool::new(all);
        let code = app.store_code(Box::new(
            ContractWrapper::new(ics_execute, ics_instantiate, ics_query).with_sudo(ics_sudo).with_reply(ics_reply).with_migrate(ics_migrate),
        ));
        let natives: Vec<String> = vec![NATIVES[0].to_string(), NATIVES[1].to_string(), format!("CW20:{}", tokens[0])];
        {
            let us = users.clone();
            let odd = natives[2].clone();
            let toks = tokens.clone();
            app.init_modules(|router, _, storage| {
                for u in &us {
                    let mut coins: Vec<Coin> = NATIVES.iter().map(|d| coin(RICH, *d)).collect();
                    coins.push(coin(RICH, odd.clone()));
                    // native coins that merely carry the name of a cw20 escrow key (the contract must refuse them whatever the allow list says)
                    for tk in &toks {
                        coins.push(coin(RICH, format!("cw20:{}", tk)));
                    }
                    router.bank.init_balance(storage, u, coins).unwrap();
                }
            });
        }
        let mut keys: Vec<u64> = vec![0, 2, 4];
        for tk in &tokens {
            keys.push(2 * pool.id(tk.as_str()).unwrap() as u64 + 1);
        }
        World { app, pool, users, tokens, ics: None, code, creator, height: h, time: t, sent: vec![], remote_of: BTreeMap::new(), keys, natives }
    }
    fn arg(&self, a: &Arg) -> String {
        match a {
            Arg::Id(i) => self.pool.addr(*i).to_string(),
            Arg::Bad => INVALID_ADDR.to_string(),
        }
    }
    fn id(&self, a: &str) -> usize {
        self.pool.id(a).unwrap_or(ANOMALY)
    }
    fn key_of_denom(&self, denom: &str) -> u64 {
        if let Some(a) = denom.strip_prefix("cw20:") {
            return 2 * self.id(a) as u64 + 1;
        }
        match self.natives.iter().position(|d| d == denom) {
            Some(i) => 2 * i as u64,
            None => match denom.strip_prefix("junk").and_then(|x| x.parse::<u64>().ok()) {
                Some(j) if j < 1_000_000 => 2 * j,
                _ => 2 * 999_999, // a key no honest history creates (e.g. a voucher string used as a local key)
            },
        }
    }
    fn denom_of_key(&self, k: u64) -> String {
        if k % 2 == 1 {
            let a = (k / 2) as usize;
            if a < self.pool.len() {
                format!("cw20:{}", self.pool.addr(a))
            } else {
                format!("cw20:{}", MockApi::default().addr_make(&format!("ghost{}", a)))
            }
        } else if ((k / 2) as usize) < self.natives.len() {
            self.natives[(k / 2) as usize].clone()
        } else {
            format!("junk{}", k / 2)
        }
    }
    pub fn instantiate(&mut self, init: &Init) -> bool {
        let msg = InitMsg {
            default_timeout: init.timeout,
            gov_contract: self.arg(&init.gov),
            allowlist: init.allow.iter().map(|(a, g)| AllowMsg { contract: self.arg(a), gas_limit: *g }).collect(),
            default_gas_limit: init.gas,
        };
        let creator = self.creator.clone();
        let code = self.code;
        let app = &mut self.app;
        let res = std::panic::catch_unwind(std::panic::AssertUnwindSafe(|| {
            app.instantiate_contract(code, creator.clone(), &msg, &[], "ics20", Some(creator.to_string()))
        }));
        match res {
            Ok(Ok(addr)) => {
                self.ics = Some(addr.clone());
                for (local, remote) in &init.channels {
                    let ch = IbcChannel::new(
                        IbcEndpoint { port_id: format!("wasm.{}", addr), channel_id: chan_name(*local) },
                        IbcEndpoint { port_id: REMOTE_PORT.into(), channel_id: chan_name(*remote) },
                        IbcOrder::Unordered,
                        "ics20-1",
                        "connection-0",
                    );
                    let m = SudoMsg::Connect(IbcChannelConnectMsg::new_ack(ch, "ics20-1"));
                    self.app.wasm_sudo(addr.clone(), &m).unwrap();
                    self.remote_of.insert(*local, *remote);
                }
                true
            }
            _ => false,
        }
    }

    pub fn decode(&self, m: &CosmosMsg) -> Msg {
        match m {
            CosmosMsg::Ibc(IbcMsg::SendPacket { channel_id, data, timeout }) => match from_json::<Ics20Packet>(data) {
                Ok(p) => Msg::Send(OutPacket {
                    chan: parse_suffix(channel_id, "channel-"),
                    amount: p.amount.u128(),
                    key: self.key_of_denom(&p.denom),
                    sender: self.id(&p.sender),
                    receiver: parse_suffix(&p.receiver, "remote"),
                    memo: p.memo.as_ref().map(|m| parse_suffix(m, "memo")),
                    timeout: timeout.timestamp().map(|t| t.nanos()).unwrap_or(0),
                    raw: Some(data.clone()),
                }),
                Err(_) => Msg::Other,
            },
            CosmosMsg::Bank(BankMsg::Send { to_address, amount }) if amount.len() == 1 => Msg::Payout {
                key: self.key_of_denom(&amount[0].denom),
                to: match self.pool.id(to_address) {
                    Some(i) => Arg::Id(i),
                    None => Arg::Bad,
                },
                n: amount[0].amount.u128(),
                gas: None,
            },
            CosmosMsg::Wasm(WasmMsg::Execute { contract_addr, msg, .. }) => match from_json::<Cw20ExecuteMsg>(msg) {
                Ok(Cw20ExecuteMsg::Transfer { recipient, amount }) => Msg::Payout {
                    key: 2 * self.id(contract_addr) as u64 + 1,
                    to: match self.pool.id(&recipient) {
                        Some(i) => Arg::Id(i),
                        None => Arg::Bad,
                    },
                    n: amount.u128(),
                    gas: None,
                },
                _ => Msg::Other,
            },
            _ => Msg::Other,
        }
    }
    fn decode_sub(&self, sm: &SubMsg) -> Msg {
        match self.decode(&sm.msg) {
            Msg::Payout { key, to, n, .. } => Msg::Payout { key, to, n, gas: sm.gas_limit },
            x => x,
        }
    }

    pub fn observe(&self) -> Obs {
        let ics = self.ics.clone().unwrap();
        let q = self.app.wrap();
        let mut o = Obs::default();
        let adm: StdResult<cw_controllers::AdminResponse> = q.query_wasm_smart(&ics, &QueryMsg::Admin {});
        o.admin = adm.ok().and_then(|a| a.admin).map(|a| self.id(&a));
        if let Ok(c) = q.query_wasm_smart::<ConfigResponse>(&ics, &QueryMsg::Config {}) {
            o.timeout = c.default_timeout;
            o.gas = c.default_gas_limit;
        } else if let Ok(Some(raw)) = q.query_wasm_raw(&ics, b"ics20_config".to_vec()) {
            // Config{} needs the admin entry; read the stored config directly when it is missing
            #[derive(Deserialize)]
            struct Raw {
                default_timeout: u64,
                default_gas_limit: Option<u64>,
            }
            if let Ok(c) = from_json::<Raw>(&raw) {
                o.timeout = c.default_timeout;
                o.gas = c.default_gas_limit;
            }
        }
        let mut start: Option<String> = None;
        for _ in 0..100 {
            let r: ListAllowedResponse = q.query_wasm_smart(&ics, &QueryMsg::ListAllowed { start_after: start.clone(), limit: Some(30) }).unwrap();
            if r.allow.is_empty() {
                break;
            }
            start = r.allow.last().map(|a| a.contract.clone());
            for a in r.allow {
                o.allow.push((self.id(&a.contract), a.gas_limit));
            }
        }
        let chans: ListChannelsResponse = q.query_wasm_smart(&ics, &QueryMsg::ListChannels {}).unwrap();
        for ci in chans.channels {
            let c = parse_suffix(&ci.id, "channel-");
            let r: ChannelResponse = q.query_wasm_smart(&ics, &QueryMsg::Channel { id: ci.id.clone() }).unwrap();
            for (bal, tot) in r.balances.iter().zip(r.total_sent.iter()) {
                let (d, x) = match bal {
                    Amount::Native(c) => (c.denom.clone(), c.amount.u128()),
                    Amount::Cw20(c) => (format!("cw20:{}", c.address), c.amount.u128()),
                };
                let t = match tot {
                    Amount::Native(c) => c.amount.u128(),
                    Amount::Cw20(c) => c.amount.u128(),
                };
                o.chan.push((c, self.key_of_denom(&d), x, t));
            }
        }
        let bal_of = |a: &Addr, k: u64| -> u128 {
            if k % 2 == 0 {
                q.query_balance(a, self.natives.get((k / 2) as usize).cloned().unwrap_or_default()).map(|c| c.amount.u128()).unwrap_or(0)
            } else {
                let tok = self.pool.addr((k / 2) as usize);
                let r: StdResult<cw20::BalanceResponse> = q.query_wasm_smart(&tok, &cw20::Cw20QueryMsg::Balance { address: a.to_string() });
                r.map(|x| x.balance.u128()).unwrap_or(0)
            }
        };
        for k in &self.keys {
            o.hold.push((*k, bal_of(&ics, *k)));
            for (i, a) in self.pool.addrs.iter().enumerate() {
                o.bal.push((i, *k, bal_of(a, *k)));
            }
        }
        o
    }

    fn tmsg(&self, t: &TMsg) -> TransferMsg {
        TransferMsg {
            channel: chan_name(t.chan),
            remote_address: format!("remote{}", t.remote),
            timeout: t.timeout,
            memo: t.memo.map(|m| format!("memo{}", m)),
        }
    }
    fn enter(&mut self, h: u64, t: u64) {
        self.height = h;
        self.time = t;
        set_block(&mut self.app, h, t);
    }
    fn record_sent(&mut self, msgs: &[Msg], ok: bool) {
        if ok {
            for m in msgs {
                if let Msg::Send(p) = m {
                    self.sent.push(p.clone());
                }
            }
        }
    }

    /// Exec / Send: (hok, ok, msgs)
    pub fn exec(&mut self, h: u64, t: u64, s: usize, op: &Op) -> (bool, bool, Vec<Msg>) {
        self.enter(h, t);
        let ics = self.ics.clone().unwrap();
        let sender = self.pool.addr(s);
        LOGI.with(|l| l.borrow_mut().clear());
        let (msg, funds): (ExecuteMsg, Vec<Coin>) = match op {
            Op::Transfer { t, funds } => (
                ExecuteMsg::Transfer(self.tmsg(t)),
                funds
                    .iter()
                    .map(|(d, n)| Coin {
                        denom: match d {
                            Den::Plain(i) => self.natives[*i].clone(),
                            Den::Prefixed(a) => format!("cw20:{}", self.pool.addr(*a)),
                        },
                        amount: *n,
                    })
                    .collect(),
            ),
            Op::Receive { from, n, t, funds } => (
                ExecuteMsg::Receive(Cw20ReceiveMsg {
                    sender: self.arg(from),
                    amount: *n,
                    msg: match t {
                        Some(t) => to_json_binary(&self.tmsg(t)).unwrap(),
                        None => Binary::from(b"garbage".to_vec()),
                    },
                }),
                if *funds { vec![coin(1, NATIVES[0])] } else { vec![] },
            ),
            Op::Allow { c, gas } => (ExecuteMsg::Allow(AllowMsg { contract: self.arg(c), gas_limit: *gas }), vec![]),
            Op::UpdateAdmin { a } => (ExecuteMsg::UpdateAdmin { admin: self.arg(a) }, vec![]),
        };
        let app = &mut self.app;
        let res = std::panic::catch_unwind(std::panic::AssertUnwindSafe(|| app.execute_contract(sender.clone(), ics.clone(), &msg, &funds).is_ok()));
        let ok = matches!(res, Ok(true));
        let log = LOGI.with(|l| std::mem::take(&mut *l.borrow_mut()));
        let (hok, msgs) = match log.first() {
            Some(Logged::Exec(Ok(resp))) => (true, resp.messages.iter().map(|sm| self.decode_sub(sm)).collect::<Vec<_>>()),
            _ => (false, vec![]),
        };
        self.record_sent(&msgs, ok);
        (hok, ok, msgs)
    }
    pub fn send_cw20(&mut self, h: u64, t: u64, tok: usize, user: usize, n: Uint128, tm: &Option<TMsg>) -> (bool, bool, Vec<Msg>) {
        self.enter(h, t);
        let ics = self.ics.clone().unwrap();
        let token = self.pool.addr(tok);
        let sender = self.pool.addr(user);
        LOGI.with(|l| l.borrow_mut().clear());
        let msg = Cw20ExecuteMsg::Send {
            contract: ics.to_string(),
            amount: n,
            msg: match tm {
                Some(t) => to_json_binary(&self.tmsg(t)).unwrap(),
                None => Binary::from(b"garbage".to_vec()),
            },
        };
        let app = &mut self.app;
        let res = std::panic::catch_unwind(std::panic::AssertUnwindSafe(|| app.execute_contract(sender.clone(), token.clone(), &msg, &[]).is_ok()));
        let ok = matches!(res, Ok(true));
        let log = LOGI.with(|l| std::mem::take(&mut *l.borrow_mut()));
        let (hok, msgs) = match log.first() {
            Some(Logged::Exec(Ok(resp))) => (true, resp.messages.iter().map(|sm| self.decode_sub(sm)).collect::<Vec<_>>()),
            _ => (false, vec![]),
        };
        self.record_sent(&msgs, ok);
        (hok, ok, msgs)
    }
    fn pden_string(&self, d: &PDen) -> String {
        match d {
            PDen::Voucher { port, chan, base } => format!(
                "{}/{}/{}",
                if *port == 0 { REMOTE_PORT.to_string() } else { format!("port{}", port) },
                chan_name(*chan),
                match base {
                    Base::Key(k) => self.denom_of_key(*k),
                    Base::BadCw20 => "cw20:notanaddress".to_string(),
                }
            ),
            PDen::Malformed(0) => "uatom".to_string(),
            PDen::Malformed(1) => format!("{}/uatom", REMOTE_PORT),
            PDen::Malformed(_) => "".to_string(),
        }
    }
    /// (aborted, final ack is success, handler messages)
    pub fn recv(&mut self, h: u64, t: u64, src_port: u64, src_chan: u64, dest_chan: u64, data: &Option<PData>) -> (bool, bool, Vec<Msg>) {
        self.enter(h, t);
        let ics = self.ics.clone().unwrap();
        LOGI.with(|l| l.borrow_mut().clear());
        let bytes = match data {
            Some(d) => to_json_binary(&Ics20Packet {
                amount: d.amount,
                denom: self.pden_string(&d.denom),
                receiver: self.arg(&d.receiver),
                sender: "remote-sender".to_string(),
                memo: d.memo.map(|m| format!("memo{}", m)),
            })
            .unwrap(),
            None => Binary::from(b"{not json".to_vec()),
        };
        let packet = IbcPacket::new(
            bytes,
            IbcEndpoint { port_id: if src_port == 0 { REMOTE_PORT.to_string() } else { format!("port{}", src_port) }, channel_id: chan_name(src_chan) },
            IbcEndpoint { port_id: format!("wasm.{}", ics), channel_id: chan_name(dest_chan) },
            7,
            IbcTimeout::with_timestamp(Timestamp::from_nanos(t + 1_000_000_000_000)),
        );
        let m = SudoMsg::Receive(IbcPacketReceiveMsg::new(packet, Addr::unchecked("relayer")));
        let app = &mut self.app;
        let res = std::panic::catch_unwind(std::panic::AssertUnwindSafe(|| app.wasm_sudo(ics.clone(), &m)));
        let log = LOGI.with(|l| std::mem::take(&mut *l.borrow_mut()));
        let msgs: Vec<Msg> = match log.first() {
            Some(Logged::Recv { msgs, .. }) => msgs.iter().map(|sm| self.decode_sub(sm)).collect(),
            _ => vec![],
        };
        match res {
            Ok(Ok(resp)) => {
                let success = resp.data.as_ref().and_then(|d| from_json::<Ics20Ack>(d).ok()).map(|a| matches!(a, Ics20Ack::Result(_))).unwrap_or(false);
                (false, success, msgs)
            }
            _ => (true, false, msgs),
        }
    }
    fn our_packet(&self, p: &OutPacket) -> IbcPacket {
        let ics = self.ics.clone().unwrap();
        IbcPacket::new(
            p.raw.clone().unwrap_or_default(),
            IbcEndpoint { port_id: format!("wasm.{}", ics), channel_id: chan_name(p.chan) },
            IbcEndpoint { port_id: REMOTE_PORT.into(), channel_id: chan_name(*self.remote_of.get(&p.chan).unwrap_or(&0)) },
            9,
            IbcTimeout::with_timestamp(Timestamp::from_nanos(p.timeout)),
        )
    }
    /// ack (success / error) or timeout of a packet we sent: (ok, refund paid, handler messages)
    pub fn settle(&mut self, h: u64, t: u64, idx: usize, success: bool, timeout: bool) -> (bool, bool, Vec<Msg>) {
        self.enter(h, t);
        let ics = self.ics.clone().unwrap();
        let p = self.sent[idx].clone();
        LOGI.with(|l| l.borrow_mut().clear());
        let m = if timeout {
            SudoMsg::Timeout(IbcPacketTimeoutMsg::new(self.our_packet(&p), Addr::unchecked("relayer")))
        } else {
            let ack = if success { Ics20Ack::Result(Binary::from(b"1".to_vec())) } else { Ics20Ack::Error("remote says no".into()) };
            SudoMsg::Ack(IbcPacketAckMsg::new(IbcAcknowledgement::new(to_json_binary(&ack).unwrap()), self.our_packet(&p), Addr::unchecked("relayer")))
        };
        let before = self.observe();
        let app = &mut self.app;
        let res = std::panic::catch_unwind(std::panic::AssertUnwindSafe(|| app.wasm_sudo(ics.clone(), &m).is_ok()));
        let ok = matches!(res, Ok(true));
        let log = LOGI.with(|l| std::mem::take(&mut *l.borrow_mut()));
        let msgs: Vec<Msg> = match log.first() {
            Some(Logged::Basic(Ok(ms))) => ms.iter().map(|sm| self.decode_sub(sm)).collect(),
            _ => vec![],
        };
        let after = self.observe();
        let hold = |o: &Obs| o.hold.iter().find(|x| x.0 == p.key).map(|x| x.1).unwrap_or(0);
        let paid = ok && hold(&after) + p.amount == hold(&before) && p.amount > 0;
        (ok, paid, msgs)
    }
    pub fn donate(&mut self, k: u64, n: Uint128) {
        let ics = self.ics.clone().unwrap();
        let from = self.users[0].clone();
        if k % 2 == 0 {
            let _ = self.app.send_tokens(from, ics, &[Coin { denom: self.natives.get((k / 2) as usize).cloned().unwrap_or_default(), amount: n }]);
        } else {
            let tok = self.pool.addr((k / 2) as usize);
            let _ = self.app.execute_contract(from, tok, &Cw20ExecuteMsg::Transfer { recipient: ics.to_string(), amount: n }, &[]);
        }
    }
    pub fn set_version(&mut self, v: u8) {
        let ics = self.ics.clone().unwrap();
        let (name, ver) = match v {
            1 => ("crates.io:cw20-ics20", "0.11.1"),
            2 => ("crates.io:cw20-ics20", "0.13.0"),
            3 => ("crates.io:cw20-ics20", "1.0.0"),
            4 => ("crates.io:cw20-ics20", "0.10.0"),
            5 => ("crates.io:cw20-ics20", "99.0.0"),
            _ => ("crates.io:something-else", "0.13.0"),
        };
        let info = format!("{{\"contract\":\"{}\",\"version\":\"{}\"}}", name, ver);
        let set = |app: &mut IApp, key: &[u8], value: Vec<u8>| {
            app.wasm_sudo(ics.clone(), &SudoMsg::RawSet { key: Binary::from(key.to_vec()), value: Binary::from(value) }).unwrap();
        };
        set(&mut self.app, b"contract_info", info.into_bytes());
        if v == 1 || v == 2 {
            // old versions did not keep the channel balances reconciled with the escrow: take something off
            // one entry so that migrate's update_balances has something to repair
            let o = self.observe();
            if let Some((c, k, out, tot)) = o.chan.iter().find(|e| e.2 > 0).cloned() {
                let d = out / 2 + 1;
                let d = d.min(out).min(tot);
                let key = cw20_ics20::state::CHANNEL_STATE.key((&chan_name(c), &self.denom_of_key(k))).to_vec();
                let val = format!("{{\"outstanding\":\"{}\",\"total_sent\":\"{}\"}}", out - d, tot - d);
                set(&mut self.app, &key, val.into_bytes());
            }
        }
        if v == 1 {
            // the pre-allow-list layout: v1 config (with the governance address inside), no admin entry, no allow list
            let o = self.observe();
            let gov = o.admin.map(|a| self.pool.addr(a).to_string()).unwrap_or_else(|| self.creator.to_string());
            let cfg = format!("{{\"default_timeout\":{},\"gov_contract\":\"{}\"}}", o.timeout, gov);
            set(&mut self.app, b"ics20_config", cfg.into_bytes());
            self.app.wasm_sudo(ics.clone(), &SudoMsg::RawRemove { key: Binary::from(b"admin".to_vec()) }).unwrap();
            for (a, _) in &o.allow {
                let key = cw20_ics20::state::ALLOW_LIST.key(&self.pool.addr(*a)).to_vec();
                self.app.wasm_sudo(ics.clone(), &SudoMsg::RawRemove { key: Binary::from(key) }).unwrap();
            }
        }
    }
    pub fn migrate(&mut self, h: u64, t: u64, gas: Option<u64>) -> bool {
        self.enter(h, t);
        let ics = self.ics.clone().unwrap();
        let creator = self.creator.clone();
        let code = self.code;
        let app = &mut self.app;
        let res = std::panic::catch_unwind(std::panic::AssertUnwindSafe(|| app.migrate_contract(creator, ics, &MigrateMsg { default_gas_limit: gas }, code).is_ok()));
        matches!(res, Ok(true))
    }
}

#[derive(Clone, Debug)]
pub enum Rec {
    Exec { h: u64, t: u64, s: usize, op: Op, hok: bool, ok: bool, msgs: Vec<Msg>, after: Obs },
    Send { h: u64, t: u64, tok: usize, user: usize, n: u128, tm: Option<TMsg>, hok: bool, ok: bool, msgs: Vec<Msg>, after: Obs },
    Recv { h: u64, t: u64, src_port: u64, src_chan: u64, dest_chan: u64, data: Option<PData>, aborted: bool, success: bool, msgs: Vec<Msg>, after: Obs },
    AckOk { h: u64, t: u64, p: OutPacket, ok: bool, after: Obs },
    Fail { h: u64, t: u64, p: OutPacket, timeout: bool, ok: bool, paid: bool, msgs: Vec<Msg>, after: Obs },
    Donate { k: u64, n: u128, after: Obs },
    SetVersion { v: u8, after: Obs },
    Migrate { h: u64, t: u64, gas: Option<u64>, ok: bool, after: Obs },
}
pub struct Ran {
    pub trace: Trace,
    pub init_ok: bool,
    pub init_obs: Obs,
    pub keys: Vec<u64>,
    pub recs: Vec<Rec>,
    pub classes: Vec<String>,
}

fn run_step(w: &mut World, st: &Step, ran: &mut Ran) {
    match st {
        Step::Exec { h, t, s, op } => {
            let (hok, ok, msgs) = w.exec(*h, *t, *s, op);
            let k = match op {
                Op::Transfer { .. } => "transfer_native",
                Op::Receive { .. } => "receive_direct",
                Op::Allow { .. } => "allow",
                Op::UpdateAdmin { .. } => "update_admin",
            };
            ran.classes.push(format!("{}|{}", k, if hok { if ok { "ok" } else { "accepted-then-rolled-back" } } else { "fail" }));
            ran.recs.push(Rec::Exec { h: *h, t: *t, s: *s, op: op.clone(), hok, ok, msgs, after: w.observe() });
        }
        Step::Send { h, t, tok, user, n, tm } => {
            let (hok, ok, msgs) = w.send_cw20(*h, *t, *tok, *user, *n, tm);
            ran.classes.push(format!("send_cw20|{}", if hok { if ok { "ok" } else { "accepted-then-rolled-back" } } else { "fail" }));
            ran.recs.push(Rec::Send { h: *h, t: *t, tok: *tok, user: *user, n: n.u128(), tm: tm.clone(), hok, ok, msgs, after: w.observe() });
        }
        Step::Recv { h, t, src_port, src_chan, dest_chan, data } => {
            let (aborted, success, msgs) = w.recv(*h, *t, *src_port, *src_chan, *dest_chan, data);
            ran.classes.push(format!(
                "recv|{}",
                if aborted { "ABORTED" } else if success { "ack_success" } else if msgs.is_empty() { "ack_error(refused)" } else { "ack_error(payout failed)" }
            ));
            ran.recs.push(Rec::Recv {
                h: *h, t: *t, src_port: *src_port, src_chan: *src_chan, dest_chan: *dest_chan, data: data.clone(), aborted, success, msgs, after: w.observe(),
            });
        }
        Step::AckOk { h, t, idx } => {
            if *idx < w.sent.len() {
                let p = w.sent[*idx].clone();
                let (ok, _, _) = w.settle(*h, *t, *idx, true, false);
                ran.classes.push(format!("ack_success|{}", if ok { "ok" } else { "fail" }));
                ran.recs.push(Rec::AckOk { h: *h, t: *t, p, ok, after: w.observe() });
            }
        }
        Step::Fail { h, t, idx, timeout } => {
            if *idx < w.sent.len() {
                let p = w.sent[*idx].clone();
                let (ok, paid, msgs) = w.settle(*h, *t, *idx, false, *timeout);
                ran.classes.push(format!("{}|{}", if *timeout { "timeout" } else { "ack_error" }, if ok { if paid { "ok refunded" } else { "ok refund failed" } } else { "fail" }));
                ran.recs.push(Rec::Fail { h: *h, t: *t, p, timeout: *timeout, ok, paid, msgs, after: w.observe() });
            }
        }
        Step::Donate { k, n } => {
            w.donate(*k, *n);
            ran.classes.push("donate".into());
            ran.recs.push(Rec::Donate { k: *k, n: n.u128(), after: w.observe() });
        }
        Step::SetVersion { v } => {
            w.set_version(*v);
            ran.classes.push(format!("set_version|{}", v));
            ran.recs.push(Rec::SetVersion { v: *v, after: w.observe() });
        }
        Step::Migrate { h, t, gas } => {
            let ok = w.migrate(*h, *t, *gas);
            ran.classes.push(format!("migrate|{}", if ok { "ok" } else { "fail" }));
            ran.recs.push(Rec::Migrate { h: *h, t: *t, gas: *gas, ok, after: w.observe() });
        }
    }
}

pub fn replay(trace: &Trace) -> Ran {
    let mut w = World::new(trace.users, trace.init.h, trace.init.t);
    let init_ok = w.instantiate(&trace.init);
    let mut ran = Ran { trace: trace.clone(), init_ok, init_obs: Obs::default(), keys: w.keys.clone(), recs: vec![], classes: vec![] };
    if !init_ok {
        return ran;
    }
    ran.init_obs = w.observe();
    for st in &trace.steps {
        run_step(&mut w, st, &mut ran);
    }
    ran
}

pub fn generate(seed: u64, case: u64, max_steps: usize) -> Ran {
    let mut r = Rng::new(seed ^ case.wrapping_mul(0x9FB21C651E98DF25) ^ 0x2020);
    let users = 4;
    let h0 = 10;
    let t0 = 1_000_000_000u64 * 1000;
    let mut w = World::new(users, h0, t0);
    let n = w.pool.len();
    let user_ids: Vec<usize> = w.users.iter().map(|u| w.pool.id(u.as_str()).unwrap()).collect();
    let tok_ids: Vec<usize> = w.tokens.iter().map(|u| w.pool.id(u.as_str()).unwrap()).collect();
    let gov = user_ids[0];
    let mut allow = vec![];
    for tk in &tok_ids {
        match r.below(4) {
            0 => {}
            1 => allow.push((Arg::Id(*tk), None)),
            2 => allow.push((Arg::Id(*tk), Some(70_000 + r.below(3) * 1000))), // the range of the migrate defaults
            _ => allow.push((Arg::Id(*tk), Some(100_000 + r.below(5) * 1000))),
        }
    }
    if r.chance(1, 30) {
        allow.push((Arg::Bad, None));
    }
    let channels = match r.below(5) {
        4 => vec![(1u64, 9u64), (2, 95)], // the counterparty's ids nest: "channel-9" is a prefix of "channel-95"
        0 => vec![(1u64, 7u64)],
        1 => vec![(1, 7), (7, 1)],
        2 => vec![(1, 15), (15, 3)],
        _ => vec![(1, 1234), (7, 99)],
    };
    let init = Init {
        timeout: if r.chance(1, 20) { u64::MAX / 1000 } else { 100 + r.below(1000) },
        gas: if r.chance(1, 2) { Some(50_000 + r.below(4) * 1000) } else { None },
        gov: if r.chance(1, 30) { Arg::Bad } else { Arg::Id(gov) },
        allow,
        channels: channels.clone(),
        h: h0,
        t: t0,
    };
    let init_ok = w.instantiate(&init);
    let mut ran = Ran {
        trace: Trace { family: "ics20".into(), seed, case, users, init, steps: vec![] },
        init_ok,
        init_obs: Obs::default(),
        keys: w.keys.clone(),
        recs: vec![],
        classes: vec![],
    };
    if !init_ok {
        return ran;
    }
    ran.init_obs = w.observe();
    let nsteps = 1 + r.below(max_steps as u64) as usize;
    let mut settled: Vec<bool> = vec![];
    let mut legacy_done = false;
    let locals: Vec<u64> = channels.iter().map(|c| c.0).collect();
    let mut pending_step: Option<Step> = None;
    for _ in 0..nsteps {
        let (mut h, mut t) = (w.height, w.time);
        if r.chance(1, 3) {
            h += 1;
            t += 5_000_000_000;
        }
        while settled.len() < w.sent.len() {
            settled.push(false);
        }
        let cur = match ran.recs.last() {
            Some(Rec::Exec { after, .. }) | Some(Rec::Send { after, .. }) | Some(Rec::Recv { after, .. }) | Some(Rec::AckOk { after, .. })
            | Some(Rec::Fail { after, .. }) | Some(Rec::Donate { after, .. }) | Some(Rec::SetVersion { after, .. }) | Some(Rec::Migrate { after, .. }) => after.clone(),
            None => ran.init_obs.clone(),
        };
        let admin = cur.admin.filter(|a| *a < n).unwrap_or(gov);
        let user = *r.pick(&user_ids);
        let pick_chan = |r: &mut Rng| if r.chance(1, 15) { 42 } else { *r.pick(&locals) };
        let tmsg = |r: &mut Rng| TMsg {
            chan: pick_chan(r),
            remote: r.below(5),
            timeout: match r.below(6) {
                0 => Some(1 + r.below(500)),
                1 => Some(u64::MAX / 1_000_000),
                _ => None,
            },
            memo: if r.chance(1, 3) { Some(r.below(9)) } else { None },
        };
        let amount = |r: &mut Rng| -> u128 {
            match r.below(12) {
                0 => 0,
                1 => u64::MAX as u128,
                2 => u64::MAX as u128 + 1,
                3 => 1,
                _ => 1 + r.below(1000) as u128,
            }
        };
        let kind = r.below(100);
        let step = if let Some(st) = pending_step.take() {
            st
        } else if kind < 18 {
            let d = if r.chance(1, 8) { 2 } else { r.below(2) as usize };
            let funds = match r.below(12) {
                0 => vec![],
                1 => vec![(Den::Plain(0), Uint128::new(5)), (Den::Plain(1), Uint128::new(5))],
                2 => vec![(Den::Prefixed(*r.pick(&tok_ids)), Uint128::new(7))],
                _ => vec![(Den::Plain(d), Uint128::new(amount(&mut r).max(1)))],
            };
            Step::Exec { h, t, s: user, op: Op::Transfer { t: tmsg(&mut r), funds } }
        } else if kind < 36 {
            let tok = *r.pick(&tok_ids);
            Step::Send { h, t, tok, user, n: Uint128::new(amount(&mut r)), tm: if r.chance(1, 15) { None } else { Some(tmsg(&mut r)) } }
        } else if kind < 40 {
            // somebody calls Receive directly, pretending to be a token
            Step::Exec {
                h, t, s: user,
                op: Op::Receive { from: if r.chance(1, 10) { Arg::Bad } else { Arg::Id(*r.pick(&user_ids)) }, n: Uint128::new(amount(&mut r)), t: Some(tmsg(&mut r)), funds: r.chance(1, 10) },
            }
        } else if kind < 64 {
            // an incoming packet: mostly a redemption of something outstanding, sometimes hostile
            let dest = *r.pick(&locals);
            let remote = *w.remote_of.get(&dest).unwrap_or(&0);
            let outstanding: Vec<&(u64, u64, u128, u128)> = cur.chan.iter().filter(|e| e.0 == dest && e.2 > 0).collect();
            let (key, have) = if !outstanding.is_empty() && r.chance(4, 5) {
                let e = *r.pick(&outstanding);
                (e.1, e.2)
            } else {
                (*r.pick(&w.keys), 0)
            };
            let amt = match r.below(8) {
                0 => have,
                1 => have + 1,
                2 => have / 2,
                3 => 0,
                _ => (1 + r.below(50) as u128).min(have.max(1)),
            };
            let (src_port, src_chan, denom) = match r.below(14) {
                0 => (0, remote, PDen::Voucher { port: 1, chan: remote, base: Base::Key(key) }),
                1 => {
                    // a voucher of another channel: the next id, an id that extends ours by a digit, or the other channel's
                    let other = w.remote_of.values().cloned().find(|x| *x != remote).unwrap_or(remote + 1);
                    let chan = match r.below(3) {
                        0 => remote + 1,
                        1 => remote * 10 + 5,
                        _ => other,
                    };
                    (0, remote, PDen::Voucher { port: 0, chan, base: Base::Key(key) })
                }
                2 => (0, remote, PDen::Malformed(r.below(3) as u8)),
                3 => (0, remote, PDen::Voucher { port: 0, chan: remote, base: Base::BadCw20 }),
                4 => (0, remote, PDen::Voucher { port: 0, chan: remote, base: Base::Key(2 * (5 + r.below(3))) }),
                5 => (0, remote, PDen::Voucher { port: 0, chan: remote, base: Base::Key(2 * (*r.pick(&user_ids) as u64) + 1) }),
                _ => (0, remote, PDen::Voucher { port: 0, chan: remote, base: Base::Key(key) }),
            };
            let data = if r.chance(1, 30) {
                None
            } else {
                Some(PData { amount: Uint128::new(amt), denom, receiver: if r.chance(1, 8) { Arg::Bad } else { Arg::Id(*r.pick(&user_ids)) }, memo: None })
            };
            Step::Recv { h, t, src_port, src_chan, dest_chan: dest, data }
        } else if kind < 80 {
            let open: Vec<usize> = (0..w.sent.len()).filter(|i| !settled[*i]).collect();
            if open.is_empty() {
                Step::Donate { k: *r.pick(&w.keys), n: Uint128::new(1 + r.below(40) as u128) }
            } else {
                let idx = *r.pick(&open);
                settled[idx] = true;
                if r.chance(1, 4) {
                    // the counterparty first sends the vouchers of this very packet back (they are redeemed), and only then
                    // the packet is reported as failed: there is nothing left on the channel to refund from
                    let p = w.sent[idx].clone();
                    let remote = *w.remote_of.get(&p.chan).unwrap_or(&0);
                    pending_step = Some(Step::Fail { h, t, idx, timeout: r.chance(1, 2) });
                    Step::Recv {
                        h, t, src_port: 0, src_chan: remote, dest_chan: p.chan,
                        data: Some(PData { amount: Uint128::new(p.amount), denom: PDen::Voucher { port: 0, chan: remote, base: Base::Key(p.key) }, receiver: Arg::Id(*r.pick(&user_ids)), memo: None }),
                    }
                } else {
                    match r.below(3) {
                        0 => Step::AckOk { h, t, idx },
                        1 => Step::Fail { h, t, idx, timeout: false },
                        _ => Step::Fail { h, t, idx, timeout: true },
                    }
                }
            }
        } else if kind < 88 {
            let c = if r.chance(5, 6) { Arg::Id(*r.pick(&tok_ids)) } else if r.chance(1, 2) { Arg::Id(user) } else { Arg::Bad };
            let gas = match r.below(8) {
                0 => None,
                1 => Some(1),
                2 => Some(u64::MAX),
                3 => Some(70_000 + r.below(3) * 1000), // the range of the migrate defaults
                _ => Some(90_000 + r.below(8) * 5000),
            };
            Step::Exec { h, t, s: if r.chance(5, 6) { admin } else { user }, op: Op::Allow { c, gas } }
        } else if kind < 92 {
            Step::Exec { h, t, s: if r.chance(3, 4) { admin } else { user }, op: Op::UpdateAdmin { a: if r.chance(1, 8) { Arg::Bad } else { Arg::Id(*r.pick(&user_ids)) } } }
        } else if kind < 94 {
            Step::Donate { k: *r.pick(&w.keys), n: Uint128::new(1 + r.below(40) as u128) }
        } else if kind < 97 && !legacy_done {
            legacy_done = true;
            Step::SetVersion { v: match r.below(8) { 0 | 1 | 2 => 1, 3 | 4 => 2, 5 => 3, 6 => 4, _ => 5 + r.below(2) as u8 } }
        } else {
            Step::Migrate { h, t, gas: match r.below(5) { 0 | 1 => None, 2 => Some(90_000 + r.below(8) * 5000), _ => Some(70_000 + r.below(3) * 1000) } }
        };
        // a legacy layout is migrated right away (the old code could not run on it anyway)
        let follow = matches!(step, Step::SetVersion { .. });
        run_step(&mut w, &step, &mut ran);
        ran.trace.steps.push(step);
        if follow {
            let m = Step::Migrate { h, t, gas: match r.below(5) { 0 | 1 => None, 2 => Some(90_000 + r.below(8) * 5000), _ => Some(70_000 + r.below(3) * 1000) } };
            run_step(&mut w, &m, &mut ran);
            ran.trace.steps.push(m);
            if r.chance(1, 2) {
                // holdings drift from the books, then the (now current) contract is migrated once more
                let d = Step::Donate { k: *r.pick(&w.keys), n: Uint128::new(1 + r.below(40) as u128) };
                run_step(&mut w, &d, &mut ran);
                ran.trace.steps.push(d);
                let m2 = Step::Migrate { h, t, gas: if r.chance(1, 2) { Some(90_000 + r.below(8) * 5000) } else { None } };
                run_step(&mut w, &m2, &mut ran);
                ran.trace.steps.push(m2);
            }
        }
    }
    ran
}

// ---- Coq emission
fn c_arg(a: &Arg) -> String {
    match a {
        Arg::Id(i) => format!("(Some {})", i),
        Arg::Bad => "None".into(),
    }
}
fn c_on<T: std::fmt::Display>(o: &Option<T>) -> String {
    opt(o, |x| x.to_string())
}
fn c_tmsg(t: &TMsg) -> String {
    format!("({}, {}, {}, {})", t.chan, t.remote, c_on(&t.timeout), c_on(&t.memo))
}
fn c_den(d: &Den) -> String {
    match d {
        Den::Plain(i) => format!("(DPlain {})", i),
        Den::Prefixed(_) => "DPrefixed".into(),
    }
}
fn c_op(op: &Op) -> String {
    match op {
        Op::Transfer { t, funds } => format!(
            "(Transfer {} {} {} {} {})",
            t.chan, t.remote, c_on(&t.timeout), c_on(&t.memo), list(funds, |(d, n)| format!("({}, {})", c_den(d), n))
        ),
        Op::Receive { from, n, t, funds } => format!("(Receive {} {} {} {})", c_arg(from), n, opt(t, c_tmsg), b(*funds)),
        Op::Allow { c, gas } => format!("(Allow {} {})", c_arg(c), c_on(gas)),
        Op::UpdateAdmin { a } => format!("(UpdateAdmin {})", c_arg(a)),
    }
}
fn c_out(p: &OutPacket) -> String {
    format!("(mkOut {} {} {} {} {} {} {})", p.chan, p.amount, p.key, p.sender, p.receiver, c_on(&p.memo), p.timeout)
}
fn c_msg(m: &Msg) -> String {
    match m {
        Msg::Send(p) => format!("(SendPacket {})", c_out(p)),
        Msg::Payout { key, to, n, gas } => format!("(Payout {} {} {} {})", key, c_arg(to), n, c_on(gas)),
        Msg::Other => "(Payout 999999 None 0 None)".into(),
    }
}
fn c_obs(o: &Obs) -> String {
    format!(
        "(mkObs {} {} {} {} {} {} {})",
        c_on(&o.admin),
        o.timeout,
        c_on(&o.gas),
        list(&o.allow, |(a, g)| format!("({}, {})", a, c_on(g))),
        list(&o.chan, |(c, k, x, t)| format!("({}, {}, {}, {})", c, k, x, t)),
        list(&o.hold, |(k, x)| format!("({}, {})", k, x)),
        list(&o.bal, |(a, k, x)| format!("({}, {}, {})", a, k, x))
    )
}
fn c_pden(d: &PDen) -> String {
    match d {
        PDen::Voucher { port, chan, base } => format!(
            "(PVoucher {} {} {})",
            port,
            chan,
            match base {
                Base::Key(k) => format!("(BKey {})", k),
                Base::BadCw20 => "BBadCw20".into(),
            }
        ),
        PDen::Malformed(_) => "PMalformed".into(),
    }
}
fn c_ver(v: u8) -> &'static str {
    match v {
        1 => "V1",
        2 => "V2",
        3 => "V3",
        4 => "VTooOld",
        5 => "VNewer",
        _ => "VOtherContract",
    }
}
pub fn to_coq(ran: &Ran) -> String {
    let i = &ran.trace.init;
    let init = format!(
        "(mkInit {} {} {} {} {})",
        i.timeout,
        c_on(&i.gas),
        c_arg(&i.gov),
        list(&i.allow, |(a, g)| format!("({}, {})", c_arg(a), c_on(g))),
        list(&i.channels, |(l, _)| l.to_string())
    );
    let mut steps = vec![];
    for rec in &ran.recs {
        steps.push(match rec {
            Rec::Exec { h, t, s, op, hok, ok, msgs, after } => {
                format!("TExec (mkBlock {} {}) {} {} {} {} {} {}", h, t, s, c_op(op), b(*hok), b(*ok), list(msgs, c_msg), c_obs(after))
            }
            Rec::Send { h, t, tok, user, n, tm, hok, ok, msgs, after } => format!(
                "TSend (mkBlock {} {}) {} {} {} {} {} {} {} {}",
                h, t, tok, user, n, opt(tm, c_tmsg), b(*hok), b(*ok), list(msgs, c_msg), c_obs(after)
            ),
            Rec::Recv { h, t, src_port, src_chan, dest_chan, data, aborted, success, msgs, after } => format!(
                "TRecv (mkBlock {} {}) (mkIn {} {} {} {}) {} {} {} {}",
                h, t, src_port, src_chan, dest_chan,
                opt(data, |d| format!("(mkPd {} {} None {} {})", d.amount, c_pden(&d.denom), c_arg(&d.receiver), c_on(&d.memo))),
                b(*aborted),
                if *success { "AckOk" } else { "AckErr" },
                list(msgs, c_msg),
                c_obs(after)
            ),
            Rec::AckOk { h, t, p, ok, after } => format!("TAckOk (mkBlock {} {}) {} {} {}", h, t, c_out(p), b(*ok), c_obs(after)),
            Rec::Fail { h, t, p, timeout, ok, paid, msgs, after } => format!(
                "TFail (mkBlock {} {}) {} {} {} {} {} {}",
                h, t, c_out(p), b(*timeout), b(*ok), b(*paid), list(msgs, c_msg), c_obs(after)
            ),
            Rec::Donate { k, n, after } => format!("TDonate {} {} {}", k, n, c_obs(after)),
            Rec::SetVersion { v, after } => format!("TSetVersion {} {}", c_ver(*v), c_obs(after)),
            Rec::Migrate { h, t, gas, ok, after } => format!("TMigrate (mkBlock {} {}) {} {} {}", h, t, c_on(gas), b(*ok), c_obs(after)),
        });
    }
    format!(
        "mkTrace {} {} {} {} [{}]",
        init,
        b(ran.init_ok),
        c_obs(&ran.init_obs),
        list(&ran.keys, |k| k.to_string()),
        steps.join(";\n  ")
    )
}

pub const COQ_HEADER: &str = "Require Import CwPlus.Base CwPlus.AMap CwPlus.Ics20Model CwPlus.Ics20Check.\nOpen Scope N_scope.\n";

pub fn class_counts(rans: &[Ran]) -> BTreeMap<String, u64> {
    let mut m = BTreeMap::new();
    for r in rans {
        *m.entry(format!("instantiate|{}", if r.init_ok { "ok" } else { "fail" })).or_insert(0) += 1;
        for c in &r.classes {
            *m.entry(c.clone()).or_insert(0) += 1;
        }
    }
    m
}
