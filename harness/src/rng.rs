//! SplitMix64: every random choice of the harness derives from one state seeded by VERIF_SEED.
#[derive(Clone)]
pub struct Rng(pub u64);

impl Rng {
    pub fn new(seed: u64) -> Self {
        Rng(seed.wrapping_mul(0x9E3779B97F4A7C15) ^ 0xD1B54A32D192ED03)
    }
    pub fn next(&mut self) -> u64 {
        self.0 = self.0.wrapping_add(0x9E3779B97F4A7C15);
        let mut z = self.0;
        z = (z ^ (z >> 30)).wrapping_mul(0xBF58476D1CE4E5B9);
        z = (z ^ (z >> 27)).wrapping_mul(0x94D049BB133111EB);
        z ^ (z >> 31)
    }
    /// uniform in 0..n (n > 0)
    pub fn below(&mut self, n: u64) -> u64 {
        self.next() % n
    }
    pub fn range(&mut self, lo: u64, hi: u64) -> u64 {
        lo + self.below(hi - lo + 1)
    }
    pub fn chance(&mut self, num: u64, den: u64) -> bool {
        self.below(den) < num
    }
    pub fn pick<'a, T>(&mut self, xs: &'a [T]) -> &'a T {
        &xs[self.below(xs.len() as u64) as usize]
    }
    pub fn u128(&mut self) -> u128 {
        ((self.next() as u128) << 64) | self.next() as u128
    }
    pub fn fork(&mut self) -> Rng {
        Rng(self.next())
    }
}
