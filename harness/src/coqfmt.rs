//! helpers to print Gallina terms
pub fn opt<T>(o: &Option<T>, f: impl Fn(&T) -> String) -> String {
    match o {
        Some(x) => format!("(Some {})", f(x)),
        None => "None".to_string(),
    }
}
pub fn b(x: bool) -> &'static str {
    if x {
        "true"
    } else {
        "false"
    }
}
pub fn list<T>(xs: &[T], f: impl Fn(&T) -> String) -> String {
    let v: Vec<String> = xs.iter().map(f).collect();
    format!("[{}]", v.join("; "))
}
