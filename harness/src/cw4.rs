//! cw4 family (C09, C10, C14): cw4-group and cw4-stake on cw-multi-test.
use crate::coqfmt::{b, list, opt};
use crate::rng::Rng;
use crate::world::{log_clear, log_push, log_take, set_block, Pool, INVALID_ADDR};
use cosmwasm_std::{
    coin, from_json, to_json_binary, Addr, BankMsg, Binary, Coin, CosmosMsg, Deps, DepsMut, Empty, Env, MessageInfo,
    Response, StdResult, Uint128, WasmMsg,
};
use cw20::{Cw20Coin, Cw20ExecuteMsg, Cw20ReceiveMsg, Denom};
use cw4::{Member, MemberChangedHookMsg, MemberListResponse, MemberResponse, TotalWeightResponse};
use cw_controllers::{AdminResponse, ClaimsResponse, HooksResponse};
use cw_multi_test::{App, Contract, ContractWrapper, Executor};
use cw_utils::{Duration, Expiration};
use serde::{Deserialize, Serialize};
use std::collections::BTreeMap;

const DENOMS: [&str; 3] = ["uatom", "ubtc", "UATOM"]; // index = model id; the third differs from the first by case only
const ANOMALY: usize = 999_999;
const RICH: u128 = 1u128 << 100;

#[derive(Serialize, Deserialize, Clone, Debug, PartialEq)]
pub enum Arg {
    Id(usize),
    Bad,
}
#[derive(Serialize, Deserialize, Clone, Debug, PartialEq)]
pub enum Tok {
    Native(usize),
    Cw20(usize), // index into World::tokens
}
#[derive(Serialize, Deserialize, Clone, Debug, PartialEq)]
pub enum Dur {
    H(u64),
    T(u64),
}
#[derive(Serialize, Deserialize, Clone, Debug, PartialEq)]
pub enum Exp {
    H(u64),
    T(u64),
    Never,
}
#[derive(Serialize, Deserialize, Clone, Debug)]
pub enum Op {
    UpdateAdmin { a: Option<Arg> },
    AddHook { a: Arg },
    RemoveHook { a: Arg },
    UpdateMembers { add: Vec<(Arg, u64)>, remove: Vec<Arg> },
    Bond { funds: Vec<(usize, Uint128)> },
    Unbond { n: Uint128 },
    Claim,
    Receive { from: Arg, n: Uint128, pok: bool },
    SendCw20 { tok: usize, n: Uint128, pok: bool }, // tok: index into World::tokens
    Donate { n: Uint128 },
}
#[derive(Serialize, Deserialize, Clone, Debug)]
pub struct Step {
    pub h: u64,
    pub t: u64,
    pub s: usize,
    pub op: Op,
}
#[derive(Serialize, Deserialize, Clone, Debug)]
pub struct Init {
    pub stake: bool,
    pub admin: Option<Arg>,
    pub members: Vec<(Arg, u64)>,
    pub token: Tok,
    pub tpw: Uint128,
    pub min_bond: Uint128,
    pub unbond: Dur,
    pub h: u64,
    pub t: u64,
}
#[derive(Serialize, Deserialize, Clone, Debug)]
pub struct Trace {
    pub family: String,
    pub seed: u64,
    pub case: u64,
    pub users: usize,
    pub init: Init,
    pub steps: Vec<Step>,
}

#[derive(Clone, Debug, PartialEq)]
pub enum Msg {
    Hook { to: usize, diffs: Vec<(usize, Option<u64>, Option<u64>)> },
    Pay { tok: Tok2, to: usize, n: u128 },
}
#[derive(Clone, Debug, PartialEq)]
pub enum Tok2 {
    Native(usize),
    Cw20(usize), // pool id
}

// ---- wrapped entry points of the contracts under test
fn g_execute(deps: DepsMut, env: Env, info: MessageInfo, msg: cw4_group::msg::ExecuteMsg) -> Result<Response, cw4_group::ContractError> {
    let r = cw4_group::contract::execute(deps, env, info, msg);
    log_push(r.as_ref().map(|x| x.clone()).map_err(|e| e.to_string()));
    r
}
fn g_instantiate(deps: DepsMut, env: Env, info: MessageInfo, msg: cw4_group::msg::InstantiateMsg) -> Result<Response, cw4_group::ContractError> {
    cw4_group::contract::instantiate(deps, env, info, msg)
}
fn g_query(deps: Deps, env: Env, msg: cw4_group::msg::QueryMsg) -> StdResult<Binary> {
    cw4_group::contract::query(deps, env, msg)
}
fn s_execute(deps: DepsMut, env: Env, info: MessageInfo, msg: cw4_stake::msg::ExecuteMsg) -> Result<Response, cw4_stake::ContractError> {
    let r = cw4_stake::contract::execute(deps, env, info, msg);
    log_push(r.as_ref().map(|x| x.clone()).map_err(|e| e.to_string()));
    r
}
fn s_instantiate(deps: DepsMut, env: Env, info: MessageInfo, msg: cw4_stake::msg::InstantiateMsg) -> Result<Response, cw4_stake::ContractError> {
    cw4_stake::contract::instantiate(deps, env, info, msg)
}
fn s_query(deps: Deps, env: Env, msg: cw4_stake::msg::QueryMsg) -> StdResult<Binary> {
    cw4_stake::contract::query(deps, env, msg)
}

// ---- a hook listener that accepts every notification
#[derive(Serialize, Deserialize, Clone, Debug, PartialEq, schemars::JsonSchema)]
#[serde(rename_all = "snake_case")]
pub enum SinkMsg {
    MemberChangedHook(MemberChangedHookMsg),
}
fn sink_execute(_deps: DepsMut, _env: Env, _info: MessageInfo, _msg: SinkMsg) -> StdResult<Response> {
    Ok(Response::default())
}
fn sink_instantiate(_deps: DepsMut, _env: Env, _info: MessageInfo, _msg: Empty) -> StdResult<Response> {
    Ok(Response::default())
}
fn sink_query(_deps: Deps, _env: Env, _msg: Empty) -> StdResult<Binary> {
    to_json_binary(&Empty {})
}
fn cw20_contract() -> Box<dyn Contract<Empty>> {
    Box::new(ContractWrapper::new(cw20_base::contract::execute, cw20_base::contract::instantiate, cw20_base::contract::query))
}

pub type Segs = Vec<(u64, Option<u64>)>;

#[derive(Clone, Debug, Default)]
pub struct Obs {
    pub admin: Option<usize>,
    pub hooks: Vec<usize>,
    pub listing: Vec<(usize, u64)>,
    pub total: u64,
    pub now: Vec<(usize, u64)>,
    pub at: Vec<(usize, Segs)>,
    pub total_at: Segs,
    pub raw_total: Option<u64>,
    pub raw: Vec<(usize, u64)>,
    pub staked: Vec<(usize, u128)>,
    pub claims: Vec<(usize, Vec<(u128, Exp)>)>,
    pub held: u128,
}

pub struct World {
    pub app: App,
    pub pool: Pool,
    pub users: Vec<Addr>,
    pub tokens: Vec<Addr>,
    pub sinks: Vec<Addr>,
    pub target: Option<Addr>,
    pub stake: bool,
    pub token: Tok,
    pub creator: Addr,
    pub height: u64,
    pub time: u64,
}

fn rle(vals: &[Option<u64>]) -> Segs {
    let mut out: Segs = vec![];
    for (h, v) in vals.iter().enumerate() {
        if out.last().map(|x| &x.1) != Some(v) {
            out.push((h as u64, *v));
        }
    }
    out
}
fn conv_exp(e: &Expiration) -> Exp {
    match e {
        Expiration::AtHeight(h) => Exp::H(*h),
        Expiration::AtTime(t) => Exp::T(t.nanos()),
        Expiration::Never {} => Exp::Never,
    }
}

impl World {
    pub fn new(nusers: usize, h: u64, t: u64) -> World {
        let mut app = App::default();
        let creator = app.api().addr_make("creator");
        let users: Vec<Addr> = (0..nusers).map(|i| app.api().addr_make(&format!("user{}", i))).collect();
        let us = users.clone();
        app.init_modules(|router, _, storage| {
            for u in &us {
                let coins: Vec<Coin> = DENOMS.iter().map(|d| coin(RICH, *d)).collect();
                router.bank.init_balance(storage, u, coins).unwrap();
            }
        });
        set_block(&mut app, h, t);
        let sink_code = app.store_code(Box::new(ContractWrapper::new(sink_execute, sink_instantiate, sink_query)));
        let mut sinks = vec![];
        for i in 0..2 {
            sinks.push(app.instantiate_contract(sink_code, creator.clone(), &Empty {}, &[], format!("sink{}", i), None).unwrap());
        }
        let c20 = app.store_code(cw20_contract());
        let mut tokens = vec![];
        for i in 0..2 {
            let msg = cw20_base::msg::InstantiateMsg {
                name: format!("token{}", i),
                symbol: "TOK".into(),
                decimals: 6,
                initial_balances: users.iter().map(|u| Cw20Coin { address: u.to_string(), amount: Uint128::new(RICH) }).collect(),
                mint: None,
                marketing: None,
            };
            tokens.push(app.instantiate_contract(c20, creator.clone(), &msg, &[], format!("tok{}", i), None).unwrap());
        }
        let mut all = users.clone();
        all.extend(sinks.iter().cloned());
        all.extend(tokens.iter().cloned());
        let pool = Pool::new(all);
        World { app, pool, users, tokens, sinks, target: None, stake: false, token: Tok::Native(0), creator, height: h, time: t }
    }
    fn arg(&self, a: &Arg) -> String {
        match a {
            Arg::Id(i) => self.pool.addr(*i).to_string(),
            Arg::Bad => INVALID_ADDR.to_string(),
        }
    }
    fn tok2(&self, t: &Tok) -> Tok2 {
        match t {
            Tok::Native(d) => Tok2::Native(*d),
            Tok::Cw20(i) => Tok2::Cw20(self.pool.id(self.tokens[*i].as_str()).unwrap()),
        }
    }
    pub fn instantiate(&mut self, init: &Init) -> bool {
        self.stake = init.stake;
        self.token = init.token.clone();
        let creator = self.creator.clone();
        let admin = init.admin.as_ref().map(|a| self.arg(a));
        let res = if init.stake {
            let code = self.app.store_code(Box::new(ContractWrapper::new(s_execute, s_instantiate, s_query)));
            let denom = match &init.token {
                Tok::Native(d) => Denom::Native(DENOMS[*d].to_string()),
                Tok::Cw20(i) => Denom::Cw20(self.tokens[*i].clone()),
            };
            let msg = cw4_stake::msg::InstantiateMsg {
                denom,
                tokens_per_weight: init.tpw,
                min_bond: init.min_bond,
                unbonding_period: match init.unbond {
                    Dur::H(n) => Duration::Height(n),
                    Dur::T(n) => Duration::Time(n),
                },
                admin,
            };
            let app = &mut self.app;
            std::panic::catch_unwind(std::panic::AssertUnwindSafe(|| app.instantiate_contract(code, creator, &msg, &[], "stake", None)))
        } else {
            let code = self.app.store_code(Box::new(ContractWrapper::new(g_execute, g_instantiate, g_query)));
            let msg = cw4_group::msg::InstantiateMsg {
                admin,
                members: init.members.iter().map(|(a, w)| Member { addr: self.arg(a), weight: *w }).collect(),
            };
            let app = &mut self.app;
            std::panic::catch_unwind(std::panic::AssertUnwindSafe(|| app.instantiate_contract(code, creator, &msg, &[], "group", None)))
        };
        match res {
            Ok(Ok(addr)) => {
                self.target = Some(addr);
                true
            }
            _ => false,
        }
    }

    fn id(&self, a: &str) -> usize {
        self.pool.id(a).unwrap_or(ANOMALY)
    }

    pub fn decode(&self, m: &CosmosMsg) -> Msg {
        match m {
            CosmosMsg::Wasm(WasmMsg::Execute { contract_addr, msg, .. }) => {
                if let Ok(SinkMsg::MemberChangedHook(h)) = from_json::<SinkMsg>(msg) {
                    return Msg::Hook {
                        to: self.id(contract_addr),
                        diffs: h.diffs.iter().map(|d| (self.id(&d.key), d.old, d.new)).collect(),
                    };
                }
                if let Ok(Cw20ExecuteMsg::Transfer { recipient, amount }) = from_json::<Cw20ExecuteMsg>(msg) {
                    return Msg::Pay { tok: Tok2::Cw20(self.id(contract_addr)), to: self.id(&recipient), n: amount.u128() };
                }
                Msg::Pay { tok: Tok2::Cw20(ANOMALY), to: ANOMALY, n: 0 }
            }
            CosmosMsg::Bank(BankMsg::Send { to_address, amount }) if amount.len() == 1 => Msg::Pay {
                tok: Tok2::Native(DENOMS.iter().position(|d| *d == amount[0].denom).unwrap_or(ANOMALY)),
                to: self.id(to_address),
                n: amount[0].amount.u128(),
            },
            _ => Msg::Pay { tok: Tok2::Native(ANOMALY), to: ANOMALY, n: 0 },
        }
    }

    fn q_member(&self, a: &Addr, h: Option<u64>) -> Option<u64> {
        let t = self.target.clone().unwrap();
        let r: StdResult<MemberResponse> = if self.stake {
            self.app.wrap().query_wasm_smart(&t, &cw4_stake::msg::QueryMsg::Member { addr: a.to_string(), at_height: h })
        } else {
            self.app.wrap().query_wasm_smart(&t, &cw4_group::msg::QueryMsg::Member { addr: a.to_string(), at_height: h })
        };
        match r {
            Ok(x) => x.weight,
            Err(_) => Some(u64::MAX - 7), // anomaly marker
        }
    }

    pub fn held(&self) -> u128 {
        let t = self.target.clone().unwrap();
        match &self.token {
            Tok::Native(d) => self.app.wrap().query_balance(&t, DENOMS[*d]).map(|c| c.amount.u128()).unwrap_or(0),
            Tok::Cw20(i) => {
                let r: StdResult<cw20::BalanceResponse> =
                    self.app.wrap().query_wasm_smart(&self.tokens[*i], &cw20::Cw20QueryMsg::Balance { address: t.to_string() });
                r.map(|x| x.balance.u128()).unwrap_or(0)
            }
        }
    }
    pub fn user_balance(&self, u: &Addr, tok: &Tok) -> u128 {
        match tok {
            Tok::Native(d) => self.app.wrap().query_balance(u, DENOMS[*d]).map(|c| c.amount.u128()).unwrap_or(0),
            Tok::Cw20(i) => {
                let r: StdResult<cw20::BalanceResponse> =
                    self.app.wrap().query_wasm_smart(&self.tokens[*i], &cw20::Cw20QueryMsg::Balance { address: u.to_string() });
                r.map(|x| x.balance.u128()).unwrap_or(0)
            }
        }
    }

    pub fn observe(&self) -> Obs {
        let t = self.target.clone().unwrap();
        let q = self.app.wrap();
        let mut o = Obs::default();
        let (adm, hooks): (AdminResponse, HooksResponse) = if self.stake {
            (q.query_wasm_smart(&t, &cw4_stake::msg::QueryMsg::Admin {}).unwrap(), q.query_wasm_smart(&t, &cw4_stake::msg::QueryMsg::Hooks {}).unwrap())
        } else {
            (q.query_wasm_smart(&t, &cw4_group::msg::QueryMsg::Admin {}).unwrap(), q.query_wasm_smart(&t, &cw4_group::msg::QueryMsg::Hooks {}).unwrap())
        };
        o.admin = adm.admin.map(|a| self.id(&a));
        o.hooks = hooks.hooks.iter().map(|h| self.id(h)).collect();
        let mut start: Option<String> = None;
        for _ in 0..1000 {
            let r: MemberListResponse = if self.stake {
                q.query_wasm_smart(&t, &cw4_stake::msg::QueryMsg::ListMembers { start_after: start.clone(), limit: Some(30) }).unwrap()
            } else {
                q.query_wasm_smart(&t, &cw4_group::msg::QueryMsg::ListMembers { start_after: start.clone(), limit: Some(30) }).unwrap()
            };
            if r.members.is_empty() {
                break;
            }
            start = r.members.last().map(|m| m.addr.clone());
            for m in r.members {
                o.listing.push((self.id(&m.addr), m.weight));
            }
        }
        let tw: TotalWeightResponse = if self.stake {
            q.query_wasm_smart(&t, &cw4_stake::msg::QueryMsg::TotalWeight {}).unwrap()
        } else {
            q.query_wasm_smart(&t, &cw4_group::msg::QueryMsg::TotalWeight { at_height: None }).unwrap()
        };
        o.total = tw.weight;
        let top = self.height + 2;
        for (i, a) in self.pool.addrs.iter().enumerate() {
            if let Some(w) = self.q_member(a, None) {
                o.now.push((i, w));
            }
            let vals: Vec<Option<u64>> = (0..=top).map(|h| self.q_member(a, Some(h))).collect();
            o.at.push((i, rle(&vals)));
            if let Some(raw) = q.query_wasm_raw(&t, cw4::member_key(a.as_str())).unwrap() {
                o.raw.push((i, from_json::<u64>(&raw).unwrap_or(u64::MAX - 7)));
            }
        }
        if !self.stake {
            let vals: Vec<Option<u64>> = (0..=top)
                .map(|h| {
                    let r: StdResult<TotalWeightResponse> = q.query_wasm_smart(&t, &cw4_group::msg::QueryMsg::TotalWeight { at_height: Some(h) });
                    r.ok().map(|x| x.weight)
                })
                .collect();
            o.total_at = rle(&vals);
        }
        o.raw_total = q.query_wasm_raw(&t, cw4::TOTAL_KEY.as_bytes().to_vec()).unwrap().map(|raw| from_json::<u64>(&raw).unwrap_or(u64::MAX - 7));
        if self.stake {
            for (i, a) in self.pool.addrs.iter().enumerate() {
                let s: cw4_stake::msg::StakedResponse = q.query_wasm_smart(&t, &cw4_stake::msg::QueryMsg::Staked { address: a.to_string() }).unwrap();
                if !s.stake.is_zero() {
                    o.staked.push((i, s.stake.u128()));
                }
                let c: ClaimsResponse = q.query_wasm_smart(&t, &cw4_stake::msg::QueryMsg::Claims { address: a.to_string() }).unwrap();
                if !c.claims.is_empty() {
                    o.claims.push((i, c.claims.iter().map(|x| (x.amount.u128(), conv_exp(&x.release_at))).collect()));
                }
            }
            o.held = self.held();
        }
        o
    }

    /// returns (hok, ok, messages of the handler)
    pub fn call(&mut self, st: &Step) -> (bool, bool, Vec<Msg>) {
        self.height = st.h;
        self.time = st.t;
        set_block(&mut self.app, st.h, st.t);
        let target = self.target.clone().unwrap();
        let sender = self.pool.addr(st.s);
        log_clear();
        let mut donate = false;
        let res: Result<bool, _> = {
            let stake = self.stake;
            let token = self.token.clone();
            let tokens = self.tokens.clone();
            let argf = |a: &Arg| self.arg(a);
            enum Do {
                Group(cw4_group::msg::ExecuteMsg),
                Stake(cw4_stake::msg::ExecuteMsg, Vec<Coin>),
                Cw20(Addr, Cw20ExecuteMsg),
                Bank(Coin),
                Nothing,
            }
            let payload = |pok: bool| if pok { to_json_binary(&cw4_stake::msg::ReceiveMsg::Bond {}).unwrap() } else { Binary::from(b"garbage".to_vec()) };
            let what = match (&st.op, stake) {
                (Op::UpdateAdmin { a }, false) => Do::Group(cw4_group::msg::ExecuteMsg::UpdateAdmin { admin: a.as_ref().map(argf) }),
                (Op::UpdateAdmin { a }, true) => Do::Stake(cw4_stake::msg::ExecuteMsg::UpdateAdmin { admin: a.as_ref().map(argf) }, vec![]),
                (Op::AddHook { a }, false) => Do::Group(cw4_group::msg::ExecuteMsg::AddHook { addr: argf(a) }),
                (Op::AddHook { a }, true) => Do::Stake(cw4_stake::msg::ExecuteMsg::AddHook { addr: argf(a) }, vec![]),
                (Op::RemoveHook { a }, false) => Do::Group(cw4_group::msg::ExecuteMsg::RemoveHook { addr: argf(a) }),
                (Op::RemoveHook { a }, true) => Do::Stake(cw4_stake::msg::ExecuteMsg::RemoveHook { addr: argf(a) }, vec![]),
                (Op::UpdateMembers { add, remove }, false) => Do::Group(cw4_group::msg::ExecuteMsg::UpdateMembers {
                    add: add.iter().map(|(a, w)| Member { addr: argf(a), weight: *w }).collect(),
                    remove: remove.iter().map(argf).collect(),
                }),
                (Op::Bond { funds }, true) => Do::Stake(
                    cw4_stake::msg::ExecuteMsg::Bond {},
                    funds.iter().map(|(d, n)| Coin { denom: DENOMS[*d].to_string(), amount: *n }).collect(),
                ),
                (Op::Unbond { n }, true) => Do::Stake(cw4_stake::msg::ExecuteMsg::Unbond { tokens: *n }, vec![]),
                (Op::Claim, true) => Do::Stake(cw4_stake::msg::ExecuteMsg::Claim {}, vec![]),
                (Op::Receive { from, n, pok }, true) => Do::Stake(
                    cw4_stake::msg::ExecuteMsg::Receive(Cw20ReceiveMsg { sender: argf(from), amount: *n, msg: payload(*pok) }),
                    vec![],
                ),
                (Op::SendCw20 { tok, n, pok }, true) => {
                    Do::Cw20(tokens[*tok].clone(), Cw20ExecuteMsg::Send { contract: target.to_string(), amount: *n, msg: payload(*pok) })
                }
                (Op::Donate { n }, true) => {
                    donate = true;
                    match &token {
                        Tok::Native(d) => Do::Bank(Coin { denom: DENOMS[*d].to_string(), amount: *n }),
                        Tok::Cw20(i) => Do::Cw20(tokens[*i].clone(), Cw20ExecuteMsg::Transfer { recipient: target.to_string(), amount: *n }),
                    }
                }
                _ => Do::Nothing,
            };
            let app = &mut self.app;
            std::panic::catch_unwind(std::panic::AssertUnwindSafe(|| match what {
                Do::Group(m) => app.execute_contract(sender.clone(), target.clone(), &m, &[]).is_ok(),
                Do::Stake(m, funds) => app.execute_contract(sender.clone(), target.clone(), &m, &funds).is_ok(),
                Do::Cw20(tok, m) => app.execute_contract(sender.clone(), tok, &m, &[]).is_ok(),
                Do::Bank(c) => app.send_tokens(sender.clone(), target.clone(), &[c]).is_ok(),
                Do::Nothing => false,
            }))
        };
        let ok = matches!(res, Ok(true));
        let log = log_take();
        if donate {
            return (ok, ok, vec![]);
        }
        match log.first() {
            Some(Ok(resp)) => (true, ok, resp.messages.iter().map(|sm| self.decode(&sm.msg)).collect()),
            _ => (false, ok, vec![]),
        }
    }
}

pub struct Ran {
    pub trace: Trace,
    pub npool: usize,
    pub init_ok: bool,
    pub init_obs: Obs,
    pub token2: Tok2,
    pub results: Vec<(bool, bool, Vec<Msg>, Obs)>,
    pub classes: Vec<String>,
}

fn op_class(stake: bool, op: &Op, hok: bool, ok: bool, msgs: &[Msg]) -> String {
    let k = match op {
        Op::UpdateAdmin { .. } => "update_admin",
        Op::AddHook { .. } => "add_hook",
        Op::RemoveHook { .. } => "remove_hook",
        Op::UpdateMembers { .. } => "update_members",
        Op::Bond { .. } => "bond",
        Op::Unbond { .. } => "unbond",
        Op::Claim => "claim",
        Op::Receive { .. } => "receive_direct",
        Op::SendCw20 { .. } => "send_cw20",
        Op::Donate { .. } => "donate",
    };
    let hooks = msgs.iter().filter(|m| matches!(m, Msg::Hook { .. })).count();
    format!(
        "{}|{}|{}|hooks_notified={}",
        if stake { "stake" } else { "group" },
        k,
        if hok { if ok { "ok" } else { "accepted-then-rolled-back" } } else { "fail" },
        hooks.min(2)
    )
}

pub fn replay(trace: &Trace) -> Ran {
    let mut w = World::new(trace.users, trace.init.h, trace.init.t);
    let init_ok = w.instantiate(&trace.init);
    let mut ran = Ran {
        trace: trace.clone(),
        npool: w.pool.len(),
        init_ok,
        init_obs: Obs::default(),
        token2: w.tok2(&trace.init.token),
        results: vec![],
        classes: vec![],
    };
    if !init_ok {
        return ran;
    }
    ran.init_obs = w.observe();
    for st in &trace.steps {
        let (hok, ok, msgs) = w.call(st);
        let obs = w.observe();
        ran.classes.push(op_class(w.stake, &st.op, hok, ok, &msgs));
        ran.results.push((hok, ok, msgs, obs));
    }
    ran
}

fn pick_arg(r: &mut Rng, n: usize) -> Arg {
    if r.chance(1, 40) {
        Arg::Bad
    } else {
        Arg::Id(r.below(n as u64) as usize)
    }
}
fn pick_weight(r: &mut Rng) -> u64 {
    match r.below(14) {
        0 => 0,
        1 => 1,
        2 => u64::MAX,
        3 => u64::MAX - 1,
        4 => u64::MAX / 2 + 1,
        _ => 1 + r.below(20),
    }
}

pub fn generate(seed: u64, case: u64, max_steps: usize) -> Ran {
    let mut r = Rng::new(seed ^ case.wrapping_mul(0x9FB21C651E98DF25) ^ 0x4444);
    let users = 4;
    let h0 = 2 + r.below(4);
    let t0 = 1_000_000_000u64 * (10 + r.below(5)) + if r.chance(1, 2) { r.below(1_000_000_000) } else { 0 };
    let mut w = World::new(users, h0, t0);
    let n = w.pool.len();
    let user_ids: Vec<usize> = w.users.iter().map(|u| w.pool.id(u.as_str()).unwrap()).collect();
    let sink_ids: Vec<usize> = w.sinks.iter().map(|u| w.pool.id(u.as_str()).unwrap()).collect();
    let stake = r.chance(1, 2);
    let admin_user = *r.pick(&user_ids);
    let admin = match r.below(12) {
        0 => None,
        1 => Some(Arg::Bad),
        _ => Some(Arg::Id(admin_user)),
    };
    let mut members = vec![];
    if !stake {
        for _ in 0..r.below(5) {
            members.push((pick_arg(&mut r, n), pick_weight(&mut r)));
        }
        // a verbatim repeated entry (same address, same weight), not adjacent when there is room
        if !members.is_empty() && r.chance(1, 6) {
            let d = members[0].clone();
            members.push(d);
        }
    }
    let token = if r.chance(1, 2) { Tok::Native(r.below(2) as usize) } else { Tok::Cw20(0) };
    let tpw = Uint128::new(match r.below(10) {
        0 => 0,
        1 => 1,
        2 => 1,
        3 => 1000,
        4 => 1u128 << 64,
        5 => u128::MAX,
        6 => 7,
        _ => 1 + r.below(12) as u128,
    });
    let min_bond = Uint128::new(match r.below(8) {
        0 => 0,
        1 => 1,
        2 => 100,
        3 => u128::MAX,
        _ => r.below(60) as u128,
    });
    let unbond = match r.below(10) {
        0 => Dur::H(0),
        1 => Dur::H(u64::MAX),
        2 => Dur::T(u64::MAX / 1_000_000),
        3 | 4 | 5 => Dur::H(1 + r.below(3)),
        _ => Dur::T(r.below(4)),
    };
    let init = Init { stake, admin, members, token: token.clone(), tpw, min_bond, unbond, h: h0, t: t0 };
    let init_ok = w.instantiate(&init);
    let mut ran = Ran {
        trace: Trace { family: "cw4".into(), seed, case, users, init, steps: vec![] },
        npool: n,
        init_ok,
        init_obs: Obs::default(),
        token2: w.tok2(&token),
        results: vec![],
        classes: vec![],
    };
    if !init_ok {
        return ran;
    }
    ran.init_obs = w.observe();
    let mut cur = ran.init_obs.clone();
    let nsteps = 1 + r.below(max_steps.min(25) as u64) as usize;
    let mut pending: Option<Step> = None;
    for _ in 0..nsteps {
        let (mut h, mut t) = (w.height, w.time);
        if r.chance(1, 2) {
            let dh = 1 + r.below(2);
            h += dh;
            t += 1_000_000_000 * dh + if r.chance(1, 2) { r.below(900_000_000) } else { 0 };
        }
        let any_user = *r.pick(&user_ids);
        let adm = match cur.admin {
            Some(a) if a < n && r.chance(6, 7) => a,
            _ => any_user,
        };
        if let Some(st) = pending.take() {
            let (hok, ok, msgs) = w.call(&st);
            let obs = w.observe();
            ran.classes.push(op_class(stake, &st.op, hok, ok, &msgs));
            ran.trace.steps.push(st);
            cur = obs.clone();
            ran.results.push((hok, ok, msgs, obs));
            continue;
        }
        let kind = r.below(100);
        let (s, op) = if !stake {
            match kind {
                0..=59 => {
                    let mut add = vec![];
                    for _ in 0..r.below(4) {
                        let a = match cur.listing.last() {
                            Some((m, _)) if r.chance(1, 3) => Arg::Id(*m),
                            _ => pick_arg(&mut r, n),
                        };
                        add.push((a, pick_weight(&mut r)));
                    }
                    let mut remove = vec![];
                    for _ in 0..r.below(3) {
                        let a = if !cur.listing.is_empty() && r.chance(2, 3) { Arg::Id(r.pick(&cur.listing).0) } else { pick_arg(&mut r, n) };
                        remove.push(a);
                    }
                    if !remove.is_empty() && r.chance(1, 6) {
                        let d = remove[0].clone();
                        remove.push(d); // the same address twice in one removal list
                    }
                    (adm, Op::UpdateMembers { add, remove })
                }
                60..=74 => {
                    let a = if r.chance(3, 4) { Arg::Id(*r.pick(&sink_ids)) } else { pick_arg(&mut r, n) };
                    (adm, Op::AddHook { a })
                }
                75..=84 => {
                    let a = if !cur.hooks.is_empty() && r.chance(3, 4) { Arg::Id(*r.pick(&cur.hooks)) } else { pick_arg(&mut r, n) };
                    (adm, Op::RemoveHook { a })
                }
                85..=92 => {
                    let a = match r.below(6) {
                        0 => None,
                        1 => Some(Arg::Bad),
                        _ => Some(Arg::Id(*r.pick(&user_ids))),
                    };
                    (adm, Op::UpdateAdmin { a })
                }
                _ => (any_user, Op::UpdateMembers { add: vec![(Arg::Id(any_user), 3)], remove: vec![] }),
            }
        } else {
            let staker = if !cur.staked.is_empty() && r.chance(2, 3) { r.pick(&cur.staked).0 } else { any_user };
            let staker = if user_ids.contains(&staker) { staker } else { any_user };
            let staked_now = cur.staked.iter().find(|x| x.0 == staker).map(|x| x.1).unwrap_or(0);
            let bal = w.user_balance(&w.pool.addr(staker), &token);
            let tp = tpw.u128().max(1);
            let amount = |r: &mut Rng| -> u128 {
                let v = match r.below(15) {
                    0 => 0,
                    1 => 1,
                    2 => min_bond.u128(),
                    3 => min_bond.u128().saturating_sub(1),
                    4 => tp.saturating_mul(1 + r.below(5) as u128),
                    5 => tp.saturating_mul(1 + r.below(5) as u128).saturating_sub(1),
                    6 => (1u128 << 64).saturating_mul(tp).saturating_add(5),
                    7 => (1u128 << 64) + 5,
                    8 => staked_now,
                    9 => staked_now / 2,
                    10 => staked_now.saturating_add(1),
                    11 => staked_now.saturating_sub(min_bond.u128().saturating_sub(1)), // leaves min_bond - 1: membership ends, the weight quotient may not move
                    _ => 1 + r.below(120) as u128,
                };
                v
            };
            match kind {
                0..=29 if bal == 0 => (staker, Op::Unbond { n: Uint128::new(amount(&mut r)) }),
                0..=29 => {
                    let nn = amount(&mut r).min(bal);
                    match &token {
                        Tok::Native(d) => {
                            let funds = match r.below(12) {
                                0 => vec![],
                                1 => vec![(1 - *d, Uint128::new(nn.max(1)))],
                                3 => vec![(2 - 2 * *d.min(&1), Uint128::new(nn.max(1)))], // "UATOM" against "uatom" (or "uatom" against "ubtc")
                                2 => vec![(0, Uint128::new(nn.max(1))), (1, Uint128::new(1))],
                                _ => vec![(*d, Uint128::new(nn.max(1)))],
                            };
                            (staker, Op::Bond { funds })
                        }
                        Tok::Cw20(i) => {
                            if r.chance(1, 10) {
                                (staker, Op::Bond { funds: vec![(0, Uint128::new(nn.max(1)))] })
                            } else {
                                let tok = if r.chance(1, 8) { 1 - *i } else { *i };
                                (staker, Op::SendCw20 { tok, n: Uint128::new(nn), pok: r.chance(11, 12) })
                            }
                        }
                    }
                }
                30..=34 => {
                    let nn = amount(&mut r).min(w.user_balance(&w.pool.addr(staker), &Tok::Cw20(1)));
                    (staker, Op::SendCw20 { tok: if r.chance(1, 2) { 0 } else { 1 }, n: Uint128::new(nn.min(bal)), pok: true })
                }
                35..=39 => (staker, Op::Receive { from: pick_arg(&mut r, n), n: Uint128::new(amount(&mut r)), pok: r.chance(3, 4) }),
                40..=59 => (staker, Op::Unbond { n: Uint128::new(amount(&mut r)) }),
                60..=74 => {
                    let c = if !cur.claims.is_empty() && r.chance(3, 4) { r.pick(&cur.claims).0 } else { staker };
                    (if user_ids.contains(&c) { c } else { staker }, Op::Claim)
                }
                75..=82 => {
                    let a = if r.chance(3, 4) { Arg::Id(*r.pick(&sink_ids)) } else { pick_arg(&mut r, n) };
                    (adm, Op::AddHook { a })
                }
                83..=87 => {
                    let a = if !cur.hooks.is_empty() && r.chance(3, 4) { Arg::Id(*r.pick(&cur.hooks)) } else { pick_arg(&mut r, n) };
                    (adm, Op::RemoveHook { a })
                }
                88..=92 => {
                    let a = match r.below(6) {
                        0 => None,
                        1 => Some(Arg::Bad),
                        _ => Some(Arg::Id(*r.pick(&user_ids))),
                    };
                    (adm, Op::UpdateAdmin { a })
                }
                93..=96 if bal == 0 => (staker, Op::Claim),
                93..=96 => {
                    let nn = (1 + r.below(50) as u128).min(bal);
                    (staker, Op::Donate { n: Uint128::new(nn.max(1)) })
                }
                _ => (any_user, Op::UpdateMembers { add: vec![(Arg::Id(any_user), 3)], remove: vec![] }),
            }
        };
        let st = Step { h, t, s, op };
        let (hok, ok, msgs) = w.call(&st);
        let obs = w.observe();
        ran.classes.push(op_class(stake, &st.op, hok, ok, &msgs));
        // a complete exit: once the whole stake is unbonded, the claim is collected a few blocks later
        if ok && matches!(st.op, Op::Unbond { .. }) && !obs.staked.iter().any(|x| x.0 == st.s) && r.chance(2, 3) {
            pending = Some(Step { h: st.h + 4, t: st.t + 4_000_000_000, s: st.s, op: Op::Claim });
        }
        ran.trace.steps.push(st);
        cur = obs.clone();
        ran.results.push((hok, ok, msgs, obs));
    }
    ran
}

// ---- Coq emission
fn c_arg(a: &Arg) -> String {
    match a {
        Arg::Id(i) => format!("(Some {})", i),
        Arg::Bad => "None".into(),
    }
}
fn c_exp(e: &Exp) -> String {
    match e {
        Exp::H(h) => format!("(AtHeight {})", h),
        Exp::T(t) => format!("(AtTime {})", t),
        Exp::Never => "Never".into(),
    }
}
fn c_tok2(t: &Tok2) -> String {
    match t {
        Tok2::Native(d) => format!("(Native {})", d),
        Tok2::Cw20(a) => format!("(Cw20 {})", a),
    }
}
fn c_on(o: &Option<u64>) -> String {
    opt(o, |x| x.to_string())
}
fn c_segs(s: &Segs) -> String {
    list(s, |(h, v)| format!("({}, {})", h, c_on(v)))
}
fn c_msg(m: &Msg) -> String {
    match m {
        Msg::Hook { to, diffs } => format!("(HookMsg {} {})", to, list(diffs, |(k, o, n)| format!("({}, {}, {})", k, c_on(o), c_on(n)))),
        Msg::Pay { tok, to, n } => format!("(Pay {} {} {})", c_tok2(tok), to, n),
    }
}
fn c_op(w_tokens: &[usize], op: &Op) -> String {
    match op {
        Op::UpdateAdmin { a } => format!("(UpdateAdmin {})", opt(a, c_arg)),
        Op::AddHook { a } => format!("(AddHook {})", c_arg(a)),
        Op::RemoveHook { a } => format!("(RemoveHook {})", c_arg(a)),
        Op::UpdateMembers { add, remove } => {
            format!("(UpdateMembers {} {})", list(add, |(a, w)| format!("({}, {})", c_arg(a), w)), list(remove, c_arg))
        }
        Op::Bond { funds } => format!("(Bond {})", list(funds, |(d, n)| format!("({}, {})", d, n))),
        Op::Unbond { n } => format!("(Unbond {})", n),
        Op::Claim => "Claim".into(),
        Op::Receive { from, n, pok } => format!("(Receive {} {} {})", c_arg(from), n, b(*pok)),
        Op::SendCw20 { tok, n, pok } => format!("(SendCw20 {} {} {})", w_tokens[*tok], n, b(*pok)),
        Op::Donate { n } => format!("(Donate {})", n),
    }
}
fn c_obs(o: &Obs) -> String {
    format!(
        "(mkObs {} {} {} {} {} {} {} {} {} {} {} {})",
        opt(&o.admin, |x| x.to_string()),
        list(&o.hooks, |x| x.to_string()),
        list(&o.listing, |(a, w)| format!("({}, {})", a, w)),
        o.total,
        list(&o.now, |(a, w)| format!("({}, {})", a, w)),
        list(&o.at, |(a, s)| format!("({}, {})", a, c_segs(s))),
        c_segs(&o.total_at),
        c_on(&o.raw_total),
        list(&o.raw, |(a, w)| format!("({}, {})", a, w)),
        list(&o.staked, |(a, w)| format!("({}, {})", a, w)),
        list(&o.claims, |(a, l)| format!("({}, {})", a, list(l, |(n, e)| format!("({}, {})", n, c_exp(e))))),
        o.held
    )
}
pub fn to_coq(ran: &Ran) -> String {
    // pool ids of the two cw20 tokens, for SendCw20
    let w = World::new(ran.trace.users, ran.trace.init.h, ran.trace.init.t);
    let tok_ids: Vec<usize> = w.tokens.iter().map(|t| w.pool.id(t.as_str()).unwrap()).collect();
    let i = &ran.trace.init;
    let cfg = format!(
        "(mkCfg {} {} {} {})",
        c_tok2(&ran.token2),
        i.tpw,
        i.min_bond,
        match i.unbond {
            Dur::H(n) => format!("(DHeight {})", n),
            Dur::T(n) => format!("(DTime {})", n),
        }
    );
    let init = format!(
        "(mkInit {} {} {} {})",
        b(i.stake),
        opt(&i.admin, c_arg),
        list(&i.members, |(a, w)| format!("({}, {})", c_arg(a), w)),
        cfg
    );
    let mut steps = vec![];
    for (st, (hok, ok, msgs, obs)) in ran.trace.steps.iter().zip(ran.results.iter()) {
        steps.push(format!(
            "TCall (mkBlock {} {}) {} {} {} {} {} {}",
            st.h,
            st.t,
            st.s,
            c_op(&tok_ids, &st.op),
            b(*hok),
            b(*ok),
            list(msgs, c_msg),
            c_obs(obs)
        ));
    }
    format!(
        "mkTrace {} (mkBlock {} {}) {} {} {} [{}]",
        init,
        i.h,
        i.t,
        ran.npool,
        b(ran.init_ok),
        c_obs(&ran.init_obs),
        steps.join(";\n  ")
    )
}

pub const COQ_HEADER: &str = "Require Import CwPlus.Base CwPlus.AMap CwPlus.Cw4Model CwPlus.Cw4Check.\nOpen Scope N_scope.\n";

pub fn class_counts(rans: &[Ran]) -> BTreeMap<String, u64> {
    let mut m = BTreeMap::new();
    for r in rans {
        *m.entry(format!("instantiate|{}|{}", if r.trace.init.stake { "stake" } else { "group" }, if r.init_ok { "ok" } else { "fail" })).or_insert(0) += 1;
        for c in &r.classes {
            *m.entry(c.clone()).or_insert(0) += 1;
        }
    }
    m
}
