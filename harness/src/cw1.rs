//! cw1 family (C07, C08, C16, C17): cw1-whitelist and cw1-subkeys on cw-multi-test.
use crate::coqfmt::{b, list, opt};
use crate::rng::Rng;
use crate::world::{log_clear, log_push, log_take, set_block, Pool, INVALID_ADDR};
use cosmwasm_std::{
    coin, from_json, to_json_binary, Addr, BankMsg, Binary, Coin, CosmosMsg, Deps, DepsMut, DistributionMsg, Empty,
    Env, GovMsg, MessageInfo, Response, StakingMsg, StdResult, SubMsg, Uint128, VoteOption, WasmMsg,
};
use cw1::CanExecuteResponse;
use cw1_subkeys::msg::{AllAllowancesResponse, AllPermissionsResponse, ExecuteMsg as SkExec, QueryMsg as SkQuery};
use cw1_subkeys::state::{Allowance, Permissions, ALLOWANCES};
use cw1_whitelist::msg::{AdminListResponse, ExecuteMsg as WlExec, InstantiateMsg, QueryMsg as WlQuery};
use cw_multi_test::{App, ContractWrapper, Executor};
use cw_utils::{Expiration, NativeBalance};
use serde::{Deserialize, Serialize};
use std::collections::BTreeMap;

const DENOMS: [&str; 3] = ["uatom", "ubtc", "ueth"]; // sorted: index = model id

#[derive(Serialize, Deserialize, Clone, Debug, PartialEq)]
pub enum Arg {
    Id(usize),
    Bad,
}
#[derive(Serialize, Deserialize, Clone, Debug, PartialEq)]
pub enum Exp {
    H(u64),
    T(u64),
    Never,
}
#[derive(Serialize, Deserialize, Clone, Debug, PartialEq)]
pub enum CMsg {
    BankSend { to: usize, coins: Vec<(usize, Uint128)> },
    BankBurn { coins: Vec<(usize, Uint128)> },
    Delegate,
    Undelegate,
    Redelegate,
    SetWithdraw,
    Withdraw,
    Other(u64),
}
#[derive(Serialize, Deserialize, Clone, Debug, PartialEq)]
pub struct Perm {
    pub d: bool,
    pub r: bool,
    pub u: bool,
    pub w: bool,
}
#[derive(Serialize, Deserialize, Clone, Debug, PartialEq)]
pub enum Op {
    Execute { msgs: Vec<CMsg> },
    Freeze,
    UpdateAdmins { l: Vec<Arg> },
    Inc { sp: Arg, c: (usize, Uint128), e: Option<Exp> },
    Dec { sp: Arg, c: (usize, Uint128), e: Option<Exp> },
    SetPerm { sp: Arg, p: Perm },
}
#[derive(Serialize, Deserialize, Clone, Debug)]
pub struct Step {
    pub h: u64,
    pub t: u64,
    pub s: usize,
    pub op: Op,
}
#[derive(Serialize, Deserialize, Clone, Debug)]
pub struct Init {
    pub subkeys: bool,
    pub admins: Vec<Arg>,
    pub mutable: bool,
}
#[derive(Serialize, Deserialize, Clone, Debug)]
pub struct Trace {
    pub family: String,
    pub seed: u64,
    pub case: u64,
    pub users: usize,
    pub init: Init,
    pub steps: Vec<Step>,
}

// ---- wrapped entry points
fn wl_execute(deps: DepsMut, env: Env, info: MessageInfo, msg: WlExec) -> Result<Response, cw1_whitelist::ContractError> {
    let r = cw1_whitelist::contract::execute(deps, env, info, msg);
    log_push(r.as_ref().map(|x| x.clone()).map_err(|e| e.to_string()));
    r
}
fn wl_instantiate(deps: DepsMut, env: Env, info: MessageInfo, msg: InstantiateMsg) -> StdResult<Response> {
    cw1_whitelist::contract::instantiate(deps, env, info, msg)
}
fn wl_query(deps: Deps, env: Env, msg: WlQuery) -> StdResult<Binary> {
    cw1_whitelist::contract::query(deps, env, msg)
}
fn sk_execute(deps: DepsMut, env: Env, info: MessageInfo, msg: SkExec) -> Result<Response, cw1_subkeys::ContractError> {
    let r = cw1_subkeys::contract::execute(deps, env, info, msg);
    log_push(r.as_ref().map(|x| x.clone()).map_err(|e| e.to_string()));
    r
}
fn sk_instantiate(deps: DepsMut, env: Env, info: MessageInfo, msg: InstantiateMsg) -> StdResult<Response> {
    cw1_subkeys::contract::instantiate(deps, env, info, msg)
}
fn sk_query(deps: Deps, env: Env, msg: SkQuery) -> StdResult<Binary> {
    cw1_subkeys::contract::query(deps, env, msg)
}

// ---- observation
#[derive(Clone, Debug, Default, PartialEq)]
pub struct Al {
    pub bal: Vec<(usize, u128)>,
    pub exp: Option<Exp>, // None only for unparsable
}
#[derive(Clone, Debug, Default)]
pub struct Obs {
    pub admins: Vec<usize>,
    pub mutable: bool,
    pub stored: Vec<(usize, Al)>,
    pub query: Vec<(usize, Al)>,
    pub listing: Vec<(usize, Al)>,
    pub perms: Vec<(usize, Perm)>,
    pub perm_q: Vec<(usize, Perm)>,
}

const ANOMALY: usize = 999_999;

fn denom_id(d: &str) -> usize {
    DENOMS.iter().position(|x| *x == d).unwrap_or(ANOMALY)
}
fn conv_exp(e: &Expiration) -> Exp {
    match e {
        Expiration::AtHeight(h) => Exp::H(*h),
        Expiration::AtTime(t) => Exp::T(t.nanos()),
        Expiration::Never {} => Exp::Never,
    }
}
fn to_exp(e: &Exp) -> Expiration {
    match e {
        Exp::H(h) => Expiration::AtHeight(*h),
        Exp::T(t) => Expiration::AtTime(cosmwasm_std::Timestamp::from_nanos(*t)),
        Exp::Never => Expiration::Never {},
    }
}
fn conv_al(balance: &NativeBalance, expires: &Expiration) -> Al {
    Al { bal: balance.0.iter().map(|c| (denom_id(&c.denom), c.amount.u128())).collect(), exp: Some(conv_exp(expires)) }
}
fn default_al() -> Al {
    Al { bal: vec![], exp: Some(Exp::Never) }
}
fn conv_perm(p: &Permissions) -> Perm {
    Perm { d: p.delegate, r: p.redelegate, u: p.undelegate, w: p.withdraw }
}

pub struct World {
    pub app: App,
    pub pool: Pool,
    pub proxy: Option<Addr>,
    pub subkeys: bool,
    pub creator: Addr,
    pub height: u64,
    pub time: u64,
}

impl World {
    pub fn new(users: usize) -> World {
        let app = App::default();
        let creator = app.api().addr_make("creator");
        let addrs: Vec<Addr> = (0..users).map(|i| app.api().addr_make(&format!("user{}", i))).collect();
        let pool = Pool::new(addrs);
        let mut w = World { app, pool, proxy: None, subkeys: false, creator, height: 100, time: 1_000_000 };
        set_block(&mut w.app, w.height, w.time);
        w
    }
    fn arg(&self, a: &Arg) -> String {
        match a {
            Arg::Id(i) => self.pool.addr(*i).to_string(),
            Arg::Bad => INVALID_ADDR.to_string(),
        }
    }
    pub fn instantiate(&mut self, init: &Init) -> bool {
        self.subkeys = init.subkeys;
        let code = if init.subkeys {
            self.app.store_code(Box::new(ContractWrapper::new(sk_execute, sk_instantiate, sk_query)))
        } else {
            self.app.store_code(Box::new(ContractWrapper::new(wl_execute, wl_instantiate, wl_query)))
        };
        let msg = InstantiateMsg { admins: init.admins.iter().map(|a| self.arg(a)).collect(), mutable: init.mutable };
        let creator = self.creator.clone();
        match self.app.instantiate_contract(code, creator, &msg, &[], "proxy", None) {
            Ok(addr) => {
                // fund the proxy so that relayed bank sends can be paid
                let coins: Vec<Coin> = DENOMS.iter().map(|d| coin(1_000_000_000_000_000_000_000_000u128, *d)).collect();
                self.app.init_modules(|router, _, storage| router.bank.init_balance(storage, &addr, coins).unwrap());
                self.proxy = Some(addr);
                true
            }
            Err(_) => false,
        }
    }
    fn coins(cs: &[(usize, Uint128)]) -> Vec<Coin> {
        cs.iter().map(|(d, n)| Coin { denom: DENOMS[*d].to_string(), amount: *n }).collect()
    }
    pub fn to_cosmos(&self, m: &CMsg) -> CosmosMsg {
        match m {
            // recipient 777 = the proxy's own address (a recipient outside every user pool)
            CMsg::BankSend { to, coins } if *to == 777 => CosmosMsg::Bank(BankMsg::Send {
                to_address: self.proxy.as_ref().map(|a| a.to_string()).unwrap_or_default(),
                amount: Self::coins(coins),
            }),
            CMsg::BankSend { to, coins } => {
                CosmosMsg::Bank(BankMsg::Send { to_address: self.pool.addr(*to).to_string(), amount: Self::coins(coins) })
            }
            CMsg::BankBurn { coins } => CosmosMsg::Bank(BankMsg::Burn { amount: Self::coins(coins) }),
            CMsg::Delegate => CosmosMsg::Staking(StakingMsg::Delegate { validator: "val1".into(), amount: coin(5, "uatom") }),
            CMsg::Undelegate => {
                CosmosMsg::Staking(StakingMsg::Undelegate { validator: "val1".into(), amount: coin(5, "uatom") })
            }
            CMsg::Redelegate => CosmosMsg::Staking(StakingMsg::Redelegate {
                src_validator: "val1".into(),
                dst_validator: "val2".into(),
                amount: coin(5, "uatom"),
            }),
            CMsg::SetWithdraw => {
                CosmosMsg::Distribution(DistributionMsg::SetWithdrawAddress { address: self.pool.addr(0).to_string() })
            }
            CMsg::Withdraw => CosmosMsg::Distribution(DistributionMsg::WithdrawDelegatorReward { validator: "val1".into() }),
            // re-entrant calls of the proxy's own admin handlers (both contracts share these two variants)
            CMsg::Other(900) => CosmosMsg::Wasm(WasmMsg::Execute {
                contract_addr: self.proxy.as_ref().map(|a| a.to_string()).unwrap_or_default(),
                msg: to_json_binary(&WlExec::<cosmwasm_std::Empty>::UpdateAdmins { admins: vec![self.pool.addr(1).to_string()] }).unwrap(),
                funds: vec![],
            }),
            CMsg::Other(901) => CosmosMsg::Wasm(WasmMsg::Execute {
                contract_addr: self.proxy.as_ref().map(|a| a.to_string()).unwrap_or_default(),
                msg: to_json_binary(&WlExec::<cosmwasm_std::Empty>::Freeze {}).unwrap(),
                funds: vec![],
            }),
            CMsg::Other(tag) => match tag % 3 {
                0 => CosmosMsg::Wasm(WasmMsg::Execute {
                    contract_addr: self.pool.addr(0).to_string(),
                    msg: to_json_binary(&format!("tag{}", tag)).unwrap(),
                    funds: vec![],
                }),
                1 => CosmosMsg::Gov(GovMsg::Vote { proposal_id: *tag, option: VoteOption::Yes }),
                _ => CosmosMsg::Wasm(WasmMsg::ClearAdmin { contract_addr: format!("c{}", tag) }),
            },
        }
    }
    fn dec_coins(cs: &[Coin]) -> Vec<(usize, Uint128)> {
        cs.iter().map(|c| (denom_id(&c.denom), c.amount)).collect()
    }
    pub fn from_cosmos(&self, m: &CosmosMsg) -> CMsg {
        match m {
            CosmosMsg::Bank(BankMsg::Send { to_address, amount }) if Some(to_address.as_str()) == self.proxy.as_ref().map(|a| a.as_str()) => {
                CMsg::BankSend { to: 777, coins: Self::dec_coins(amount) }
            }
            CosmosMsg::Bank(BankMsg::Send { to_address, amount }) => {
                CMsg::BankSend { to: self.pool.id(to_address).unwrap_or(ANOMALY), coins: Self::dec_coins(amount) }
            }
            CosmosMsg::Bank(BankMsg::Burn { amount }) => CMsg::BankBurn { coins: Self::dec_coins(amount) },
            CosmosMsg::Staking(StakingMsg::Delegate { .. }) => CMsg::Delegate,
            CosmosMsg::Staking(StakingMsg::Undelegate { .. }) => CMsg::Undelegate,
            CosmosMsg::Staking(StakingMsg::Redelegate { .. }) => CMsg::Redelegate,
            CosmosMsg::Distribution(DistributionMsg::SetWithdrawAddress { .. }) => CMsg::SetWithdraw,
            CosmosMsg::Distribution(DistributionMsg::WithdrawDelegatorReward { .. }) => CMsg::Withdraw,
            CosmosMsg::Wasm(WasmMsg::Execute { msg, contract_addr, .. }) if Some(contract_addr.as_str()) == self.proxy.as_ref().map(|a| a.as_str()) => {
                match from_json::<WlExec<cosmwasm_std::Empty>>(msg) {
                    Ok(WlExec::UpdateAdmins { .. }) => CMsg::Other(900),
                    Ok(WlExec::Freeze {}) => CMsg::Other(901),
                    _ => CMsg::Other(u64::MAX),
                }
            }
            CosmosMsg::Wasm(WasmMsg::Execute { msg, .. }) => {
                let s: String = from_json(msg).unwrap_or_default();
                CMsg::Other(s.trim_start_matches("tag").parse().unwrap_or(u64::MAX))
            }
            CosmosMsg::Gov(GovMsg::Vote { proposal_id, .. }) => CMsg::Other(*proposal_id),
            CosmosMsg::Wasm(WasmMsg::ClearAdmin { contract_addr }) => {
                CMsg::Other(contract_addr.trim_start_matches('c').parse().unwrap_or(u64::MAX))
            }
            _ => CMsg::Other(u64::MAX),
        }
    }

    pub fn observe(&self) -> Obs {
        let proxy = self.proxy.clone().unwrap();
        let q = self.app.wrap();
        let mut o = Obs::default();
        let al: AdminListResponse = if self.subkeys {
            q.query_wasm_smart(&proxy, &SkQuery::<Empty>::AdminList {}).unwrap()
        } else {
            q.query_wasm_smart(&proxy, &WlQuery::<Empty>::AdminList {}).unwrap()
        };
        o.admins = al.admins.iter().map(|a| self.pool.id(a).unwrap_or(ANOMALY)).collect();
        o.mutable = al.mutable;
        if !self.subkeys {
            return o;
        }
        for (i, a) in self.pool.addrs.iter().enumerate() {
            let key = ALLOWANCES.key(a);
            if let Some(raw) = q.query_wasm_raw(&proxy, key.to_vec()).unwrap() {
                match from_json::<Allowance>(&raw) {
                    Ok(x) => o.stored.push((i, conv_al(&x.balance, &x.expires))),
                    Err(_) => o.stored.push((i, Al { bal: vec![(ANOMALY, 0)], exp: None })),
                }
            }
            let x: Allowance = q.query_wasm_smart(&proxy, &SkQuery::<Empty>::Allowance { spender: a.to_string() }).unwrap();
            let al = conv_al(&x.balance, &x.expires);
            if al != default_al() {
                o.query.push((i, al));
            }
            let p: Permissions =
                q.query_wasm_smart(&proxy, &SkQuery::<Empty>::Permissions { spender: a.to_string() }).unwrap();
            let pp = conv_perm(&p);
            if pp != (Perm { d: false, r: false, u: false, w: false }) {
                o.perm_q.push((i, pp));
            }
        }
        let mut start: Option<String> = None;
        for _ in 0..1000 {
            let r: AllAllowancesResponse = q
                .query_wasm_smart(&proxy, &SkQuery::<Empty>::AllAllowances { start_after: start.clone(), limit: Some(30) })
                .unwrap();
            if r.allowances.is_empty() {
                break;
            }
            start = r.allowances.last().map(|x| x.spender.clone());
            for e in r.allowances {
                o.listing.push((self.pool.id(&e.spender).unwrap_or(ANOMALY), conv_al(&e.balance, &e.expires)));
            }
        }
        let mut start: Option<String> = None;
        for _ in 0..1000 {
            let r: AllPermissionsResponse = q
                .query_wasm_smart(&proxy, &SkQuery::<Empty>::AllPermissions { start_after: start.clone(), limit: Some(30) })
                .unwrap();
            if r.permissions.is_empty() {
                break;
            }
            start = r.permissions.last().map(|x| x.spender.clone());
            for e in r.permissions {
                o.perms.push((self.pool.id(&e.spender).unwrap_or(ANOMALY), conv_perm(&e.permissions)));
            }
        }
        o
    }

    pub fn can_execute(&self, s: usize, m: &CMsg) -> Option<bool> {
        let proxy = self.proxy.clone().unwrap();
        let q = self.app.wrap();
        let sender = self.pool.addr(s).to_string();
        let msg = self.to_cosmos(m);
        // a query that panics (an arithmetic overflow inside the contract) is "no answer", not the end of the run
        let sk = self.subkeys;
        let r = std::panic::catch_unwind(std::panic::AssertUnwindSafe(|| -> StdResult<CanExecuteResponse> {
            if sk {
                q.query_wasm_smart(&proxy, &SkQuery::<Empty>::CanExecute { sender, msg })
            } else {
                q.query_wasm_smart(&proxy, &WlQuery::<Empty>::CanExecute { sender, msg })
            }
        }));
        match r {
            Ok(r) => r.ok().map(|x| x.can_execute),
            Err(_) => None,
        }
    }

    /// returns (pred, hok, ok, relayed, exact)
    pub fn call(&mut self, st: &Step) -> (Option<bool>, bool, bool, Vec<CMsg>, bool) {
        self.height = st.h;
        self.time = st.t;
        set_block(&mut self.app, st.h, st.t);
        let proxy = self.proxy.clone().unwrap();
        let sender = self.pool.addr(st.s);
        let pred = match &st.op {
            Op::Execute { msgs } if msgs.len() == 1 => self.can_execute(st.s, &msgs[0]),
            _ => None,
        };
        let submitted: Vec<CosmosMsg> = match &st.op {
            Op::Execute { msgs } => msgs.iter().map(|m| self.to_cosmos(m)).collect(),
            _ => vec![],
        };
        log_clear();
        let ex = |x: &Option<Exp>| x.as_ref().map(to_exp);
        let c = |x: &(usize, Uint128)| Coin { denom: DENOMS[x.0].to_string(), amount: x.1 };
        let res = if self.subkeys {
            let msg: SkExec = match &st.op {
                Op::Execute { .. } => SkExec::Execute { msgs: submitted.clone() },
                Op::Freeze => SkExec::Freeze {},
                Op::UpdateAdmins { l } => SkExec::UpdateAdmins { admins: l.iter().map(|a| self.arg(a)).collect() },
                Op::Inc { sp, c: cc, e } => SkExec::IncreaseAllowance { spender: self.arg(sp), amount: c(cc), expires: ex(e) },
                Op::Dec { sp, c: cc, e } => SkExec::DecreaseAllowance { spender: self.arg(sp), amount: c(cc), expires: ex(e) },
                Op::SetPerm { sp, p } => SkExec::SetPermissions {
                    spender: self.arg(sp),
                    permissions: Permissions { delegate: p.d, redelegate: p.r, undelegate: p.u, withdraw: p.w },
                },
            };
            let app = &mut self.app;
            std::panic::catch_unwind(std::panic::AssertUnwindSafe(|| app.execute_contract(sender.clone(), proxy.clone(), &msg, &[]).is_ok()))
        } else {
            let msg: Option<WlExec> = match &st.op {
                Op::Execute { .. } => Some(WlExec::Execute { msgs: submitted.clone() }),
                Op::Freeze => Some(WlExec::Freeze {}),
                Op::UpdateAdmins { l } => Some(WlExec::UpdateAdmins { admins: l.iter().map(|a| self.arg(a)).collect() }),
                _ => None,
            };
            let app = &mut self.app;
            match msg {
                Some(m) => std::panic::catch_unwind(std::panic::AssertUnwindSafe(|| {
                    app.execute_contract(sender.clone(), proxy.clone(), &m, &[]).is_ok()
                })),
                None => Ok(false),
            }
        };
        let ok = matches!(res, Ok(true));
        let log = log_take();
        let (hok, relayed, exact) = match log.first() {
            Some(Ok(resp)) => {
                let expected: Vec<SubMsg> = submitted.iter().cloned().map(SubMsg::new).collect();
                let exact = resp.messages == expected;
                (true, resp.messages.iter().map(|sm| self.from_cosmos(&sm.msg)).collect(), exact)
            }
            _ => (false, vec![], true),
        };
        // a CanExecute query that gives no answer (error or abort) predicts nothing: it is recorded as the
        // opposite of what Execute then did, so that S_C16 reports it
        let pred = match (&st.op, pred) {
            (Op::Execute { msgs }, None) if msgs.len() == 1 => Some(!hok),
            (_, p) => p,
        };
        (pred, hok, ok, relayed, exact)
    }
}

pub struct Ran {
    pub trace: Trace,
    pub init_ok: bool,
    pub init_obs: Obs,
    pub results: Vec<(Option<bool>, bool, bool, Vec<CMsg>, bool, Obs)>,
    pub classes: Vec<String>,
}

fn msg_kind(m: &CMsg) -> &'static str {
    match m {
        CMsg::BankSend { .. } => "send",
        CMsg::BankBurn { .. } => "burn",
        CMsg::Delegate => "delegate",
        CMsg::Undelegate => "undelegate",
        CMsg::Redelegate => "redelegate",
        CMsg::SetWithdraw => "set_withdraw",
        CMsg::Withdraw => "withdraw",
        CMsg::Other(_) => "other",
    }
}
fn op_class(subkeys: bool, op: &Op, hok: bool, ok: bool, pred: Option<bool>) -> String {
    let k = match op {
        Op::Execute { msgs } => match msgs.len() {
            0 => "execute[]".to_string(),
            1 => format!("execute[{}]", msg_kind(&msgs[0])),
            _ => "execute[multi]".to_string(),
        },
        Op::Freeze => "freeze".into(),
        Op::UpdateAdmins { .. } => "update_admins".into(),
        Op::Inc { .. } => "increase".into(),
        Op::Dec { .. } => "decrease".into(),
        Op::SetPerm { .. } => "set_perm".into(),
    };
    format!(
        "{}|{}|{}{}",
        if subkeys { "subkeys" } else { "whitelist" },
        k,
        if hok { if ok { "ok" } else { "relayed-then-rolled-back" } } else { "fail" },
        match pred {
            Some(p) => format!("|pred={}", p),
            None => String::new(),
        }
    )
}

pub fn replay(trace: &Trace) -> Ran {
    let mut w = World::new(trace.users);
    let init_ok = w.instantiate(&trace.init);
    let mut ran = Ran { trace: trace.clone(), init_ok, init_obs: Obs::default(), results: vec![], classes: vec![] };
    if !init_ok {
        return ran;
    }
    ran.init_obs = w.observe();
    for st in &trace.steps {
        let (pred, hok, ok, relayed, exact) = w.call(st);
        let obs = w.observe();
        ran.classes.push(op_class(w.subkeys, &st.op, hok, ok, pred));
        ran.results.push((pred, hok, ok, relayed, exact, obs));
    }
    ran
}

fn pick_arg(r: &mut Rng, n: usize) -> Arg {
    if r.chance(1, 40) {
        Arg::Bad
    } else {
        Arg::Id(r.below(n as u64) as usize)
    }
}
fn pick_exp(r: &mut Rng, h: u64, t: u64) -> Option<Exp> {
    match r.below(12) {
        0..=4 => None,
        5 => Some(Exp::Never),
        6 => Some(Exp::H(h)),
        7 | 8 => Some(Exp::H(h + 1 + r.below(6))),
        9 => Some(Exp::T(t)),
        _ => Some(Exp::T(t + 1 + r.below(6) * 1000)),
    }
}
fn pick_amt(r: &mut Rng, hint: u128) -> Uint128 {
    Uint128::new(match r.below(12) {
        0 => 0,
        1 => 1,
        2 => hint,
        3 => hint.saturating_add(1),
        4 => hint.saturating_sub(1),
        5 => hint / 2,
        6 => u128::MAX,
        7 => u128::MAX - hint,
        _ => 1 + r.below(300) as u128,
    })
}

pub fn generate(seed: u64, case: u64, max_steps: usize) -> Ran {
    let mut r = Rng::new(seed ^ case.wrapping_mul(0x9FB21C651E98DF25) ^ 0x1111);
    let users = 5;
    let mut w = World::new(users);
    let n = w.pool.len();
    let subkeys = r.chance(4, 5);
    let mut admins = vec![];
    for _ in 0..(1 + r.below(2)) {
        admins.push(pick_arg(&mut r, n));
    }
    if r.chance(1, 10) && !admins.is_empty() {
        admins.push(admins[0].clone());
    }
    if r.chance(1, 25) {
        admins.clear();
    }
    let init = Init { subkeys, admins, mutable: r.chance(5, 6) };
    let init_ok = w.instantiate(&init);
    let mut ran = Ran {
        trace: Trace { family: "cw1".into(), seed, case, users, init, steps: vec![] },
        init_ok,
        init_obs: Obs::default(),
        results: vec![],
        classes: vec![],
    };
    if !init_ok {
        return ran;
    }
    ran.init_obs = w.observe();
    let mut cur = ran.init_obs.clone();
    let nsteps = 1 + r.below(max_steps as u64) as usize;
    let mut pending: std::collections::VecDeque<Step> = Default::default();
    for _ in 0..nsteps {
        if let Some(st) = pending.pop_front() {
            let (pred, hok, ok, relayed, exact) = w.call(&st);
            let obs = w.observe();
            ran.classes.push(op_class(subkeys, &st.op, hok, ok, pred));
            ran.trace.steps.push(st);
            cur = obs.clone();
            ran.results.push((pred, hok, ok, relayed, exact, obs));
            continue;
        }
        let (mut h, mut t) = (w.height, w.time);
        if r.chance(1, 3) {
            h += 1 + r.below(2);
            t += 1000 * (1 + r.below(3));
        }
        let any = r.below(n as u64) as usize;
        // the life of one grant, step by step: granted with a deadline, spent down to exactly nothing, topped up without a
        // new deadline, and used again once the deadline has passed (the send must then fail)
        if subkeys && !cur.admins.is_empty() && cur.admins[0] < n && r.chance(1, 14) {
            let adm = cur.admins[0];
            let fresh: Vec<usize> = (0..n).filter(|u| *u != adm && !cur.admins.contains(u) && !cur.stored.iter().any(|x| x.0 == *u)).collect();
            if !fresh.is_empty() {
                let g = *r.pick(&fresh);
                let d = r.below(3) as usize;
                let a = 1 + r.below(20) as u128;
                let b = 1 + r.below(20) as u128;
                let e = if r.chance(1, 2) { Exp::H(h + 6) } else { Exp::T(t + 6_000) };
                pending.push_back(Step { h, t, s: adm, op: Op::Inc { sp: Arg::Id(g), c: (d, Uint128::new(a)), e: Some(e) } });
                pending.push_back(Step { h, t, s: g, op: Op::Execute { msgs: vec![CMsg::BankSend { to: any, coins: vec![(d, Uint128::new(a))] }] } });
                // the exhausted (but stored and unexpired) grant is asked for nothing: CanExecute and Execute must agree
                pending.push_back(Step { h, t, s: g, op: Op::Execute { msgs: vec![CMsg::BankSend { to: any, coins: if r.chance(1, 2) { vec![] } else { vec![(d, Uint128::zero())] } }] } });
                pending.push_back(Step { h: h + 1, t: t + 1_000, s: adm, op: Op::Inc { sp: Arg::Id(g), c: (d, Uint128::new(b)), e: None } });
                if r.chance(1, 2) {
                    // a new grant with a new deadline, issued in the very block (at the very time) the old one expires:
                    // the old remainder must not be carried over
                    let c = 1 + r.below(20) as u128;
                    let e2 = if r.chance(1, 2) { Exp::H(h + 20) } else { Exp::T(t + 20_000) };
                    pending.push_back(Step { h: h + 6, t: t + 6_000, s: adm, op: Op::Inc { sp: Arg::Id(g), c: (d, Uint128::new(c)), e: Some(e2) } });
                }
                pending.push_back(Step { h: h + 8, t: t + 8_000, s: g, op: Op::Execute { msgs: vec![CMsg::BankSend { to: any, coins: vec![(d, Uint128::new(b))] }] } });
                continue;
            }
        }
        // an admin is dropped by an update that repeats another admin in its place (the list keeps its length); the dropped
        // one then tries to use the proxy and to change the admins
        if cur.mutable && cur.admins.len() >= 2 && cur.admins.iter().all(|a| *a < n) && cur.admins[0] != cur.admins[1] && r.chance(1, 12) {
            let keep = cur.admins[0];
            let gone = cur.admins[1];
            let mut l: Vec<Arg> = cur.admins.iter().map(|a| Arg::Id(if *a == gone { keep } else { *a })).collect();
            if r.chance(1, 3) {
                l.reverse();
            }
            pending.push_back(Step { h, t, s: keep, op: Op::UpdateAdmins { l } });
            pending.push_back(Step { h, t, s: gone, op: Op::Execute { msgs: vec![CMsg::BankSend { to: any, coins: vec![(0, Uint128::new(1))] }] } });
            pending.push_back(Step { h, t, s: gone, op: Op::UpdateAdmins { l: vec![Arg::Id(gone)] } });
            continue;
        }
        // a permission probe: one subkey gets a random combination of the four flags and tries each kind of staking /
        // distribution message on its own (each preceded by the CanExecute query)
        if subkeys && !cur.admins.is_empty() && cur.admins[0] < n && r.chance(1, 20) {
            let adm = cur.admins[0];
            let others: Vec<usize> = (0..n).filter(|u| *u != adm && !cur.admins.contains(u)).collect();
            if !others.is_empty() {
                let g = *r.pick(&others);
                let p = Perm { d: r.chance(1, 2), r: r.chance(1, 2), u: r.chance(1, 2), w: r.chance(1, 2) };
                pending.push_back(Step { h, t, s: adm, op: Op::SetPerm { sp: Arg::Id(g), p } });
                for m in [CMsg::Delegate, CMsg::Undelegate, CMsg::Redelegate, CMsg::SetWithdraw, CMsg::Withdraw] {
                    pending.push_back(Step { h, t, s: g, op: Op::Execute { msgs: vec![m] } });
                }
                continue;
            }
        }
        // a grant used through mixed batches: a permitted distribution / staking message first, then the bank send, twice,
        // with amounts that fit once but not twice
        if subkeys && !cur.admins.is_empty() && cur.admins[0] < n && r.chance(1, 20) {
            let adm = cur.admins[0];
            let fresh: Vec<usize> = (0..n).filter(|u| *u != adm && !cur.admins.contains(u) && !cur.stored.iter().any(|x| x.0 == *u)).collect();
            if !fresh.is_empty() {
                let g = *r.pick(&fresh);
                let d = r.below(3) as usize;
                let a = 4 + r.below(20) as u128;
                let first = if r.chance(1, 2) { CMsg::SetWithdraw } else { CMsg::Delegate };
                let batch = vec![first, CMsg::BankSend { to: any, coins: vec![(d, Uint128::new(a / 2 + 1))] }];
                pending.push_back(Step { h, t, s: adm, op: Op::Inc { sp: Arg::Id(g), c: (d, Uint128::new(a)), e: None } });
                pending.push_back(Step { h, t, s: adm, op: Op::SetPerm { sp: Arg::Id(g), p: Perm { d: true, r: false, u: false, w: true } } });
                // two sends in one call, each within the grant, together beyond it: the whole call must fail
                let half = CMsg::BankSend { to: any, coins: vec![(d, Uint128::new(a / 2 + 1))] };
                pending.push_back(Step { h, t, s: g, op: Op::Execute { msgs: vec![half.clone(), half] } });
                pending.push_back(Step { h, t, s: g, op: Op::Execute { msgs: batch.clone() } });
                pending.push_back(Step { h, t, s: g, op: Op::Execute { msgs: batch } });
                continue;
            }
        }
        let admin = if !cur.admins.is_empty() && cur.admins[0] < n { cur.admins[r.below(cur.admins.len() as u64) as usize] } else { any };
        let admin = if admin < n { admin } else { any };
        let grantee: Option<(usize, Al)> = if cur.stored.is_empty() { None } else { Some(r.pick(&cur.stored).clone()) };
        let kind = r.below(100);
        let (s, op) = if !subkeys {
            match kind {
                0..=59 => {
                    let s = if r.chance(1, 2) { admin } else { any };
                    (s, Op::Execute { msgs: gen_msgs(&mut r, n, None) })
                }
                60..=79 => (if r.chance(2, 3) { admin } else { any }, Op::UpdateAdmins { l: gen_admins(&mut r, n) }),
                80..=89 => (if r.chance(1, 2) { admin } else { any }, Op::Freeze),
                _ => (any, Op::Execute { msgs: vec![] }),
            }
        } else {
            match kind {
                0..=44 => {
                    let (s, al) = match &grantee {
                        Some((g, al)) if r.chance(3, 5) => (*g, Some(al.clone())),
                        _ => {
                            if r.chance(1, 3) {
                                (admin, None)
                            } else {
                                (any, cur.stored.iter().find(|x| x.0 == any).map(|x| x.1.clone()))
                            }
                        }
                    };
                    (s, Op::Execute { msgs: gen_msgs(&mut r, n, al.as_ref()) })
                }
                45..=64 if cur.stored.iter().any(|(_, al)| al.bal.is_empty()) && r.chance(1, 2) => {
                    // an allowance spent down to nothing (its record and expiry are still stored) is topped up
                    let g = cur.stored.iter().find(|(_, al)| al.bal.is_empty()).map(|x| x.0).unwrap();
                    let e = if r.chance(2, 3) { None } else { pick_exp(&mut r, h, t) };
                    (admin, Op::Inc { sp: Arg::Id(g), c: (r.below(3) as usize, pick_amt(&mut r, 10)), e })
                }
                45..=64 => {
                    let s = if r.chance(7, 8) { admin } else { any };
                    let sp = match &grantee {
                        Some((g, _)) if r.chance(1, 2) => Arg::Id(*g),
                        _ => pick_arg(&mut r, n),
                    };
                    let d = r.below(3) as usize;
                    // sometimes the very expiry the grantee's allowance already has (expired or not)
                    let e = match (&grantee, &sp) {
                        (Some((g, al)), Arg::Id(x)) if g == x && r.chance(1, 4) => al.exp.clone(),
                        _ => pick_exp(&mut r, h, t),
                    };
                    (s, Op::Inc { sp, c: (d, pick_amt(&mut r, 100)), e })
                }
                65..=76 => {
                    let s = if r.chance(7, 8) { admin } else { any };
                    let (sp, d, hint) = match &grantee {
                        Some((g, al)) if r.chance(4, 5) && !al.bal.is_empty() => {
                            let c = r.pick(&al.bal);
                            (Arg::Id(*g), if r.chance(5, 6) { c.0.min(2) } else { r.below(3) as usize }, c.1)
                        }
                        _ => (pick_arg(&mut r, n), r.below(3) as usize, 10),
                    };
                    (s, Op::Dec { sp, c: (d, pick_amt(&mut r, hint)), e: pick_exp(&mut r, h, t) })
                }
                77..=86 => {
                    let s = if r.chance(7, 8) { admin } else { any };
                    let p = Perm { d: r.chance(1, 2), r: r.chance(1, 2), u: r.chance(1, 2), w: r.chance(1, 2) };
                    (s, Op::SetPerm { sp: pick_arg(&mut r, n), p })
                }
                87..=93 => (if r.chance(2, 3) { admin } else { any }, Op::UpdateAdmins { l: gen_admins(&mut r, n) }),
                94..=96 => (if r.chance(1, 2) { admin } else { any }, Op::Freeze),
                _ => (any, Op::Execute { msgs: vec![] }),
            }
        };
        let st = Step { h, t, s, op };
        let (pred, hok, ok, relayed, exact) = w.call(&st);
        let obs = w.observe();
        ran.classes.push(op_class(subkeys, &st.op, hok, ok, pred));
        ran.trace.steps.push(st);
        cur = obs.clone();
        ran.results.push((pred, hok, ok, relayed, exact, obs));
    }
    ran
}

fn gen_admins(r: &mut Rng, n: usize) -> Vec<Arg> {
    let k = if r.chance(1, 15) { 0 } else { 1 + r.below(3) as usize };
    (0..k).map(|_| pick_arg(r, n)).collect()
}

fn gen_send(r: &mut Rng, n: usize, al: Option<&Al>) -> CMsg {
    // an allowance record that is still stored but has been spent down to nothing: ask for nothing
    if let Some(a) = al {
        if a.bal.is_empty() && r.chance(1, 2) {
            return CMsg::BankSend { to: r.below(n as u64) as usize, coins: if r.chance(1, 2) { vec![] } else { vec![(0, Uint128::zero())] } };
        }
    }
    let mut coins = vec![];
    let k = 1 + r.below(2) as usize;
    for _ in 0..k {
        match al {
            Some(a) if !a.bal.is_empty() && r.chance(5, 6) => {
                let c = r.pick(&a.bal);
                let d = if c.0 < 3 { c.0 } else { 0 };
                let amt = match r.below(8) {
                    0 => c.1,
                    1 => c.1.saturating_add(1),
                    2 => c.1 / 2,
                    3 => 0,
                    4 => c.1 / 2 + 1,
                    _ => (1 + r.below(20) as u128).min(c.1.max(1)),
                };
                coins.push((d, Uint128::new(amt)));
            }
            _ => coins.push((r.below(3) as usize, Uint128::new(r.below(50) as u128))),
        }
    }
    if r.chance(1, 12) {
        coins.clear();
    }
    CMsg::BankSend { to: if r.chance(1, 10) { 777 } else { r.below(n as u64) as usize }, coins }
}

fn gen_msg(r: &mut Rng, n: usize, al: Option<&Al>) -> CMsg {
    match r.below(20) {
        0..=9 => gen_send(r, n, al),
        10 => CMsg::BankBurn { coins: vec![(0, Uint128::new(1))] },
        11 | 12 => CMsg::Delegate,
        13 => CMsg::Undelegate,
        14 => CMsg::Redelegate,
        15 => CMsg::SetWithdraw,
        16 => CMsg::Withdraw,
        _ => CMsg::Other(match r.below(8) {
            0 => 900,
            1 => 901,
            _ => r.below(9),
        }),
    }
}

fn gen_msgs(r: &mut Rng, n: usize, al: Option<&Al>) -> Vec<CMsg> {
    match r.below(10) {
        0..=5 => vec![gen_msg(r, n, al)],
        6 => vec![],
        _ => (0..(2 + r.below(3))).map(|_| gen_msg(r, n, al)).collect(),
    }
}

// ---- Coq emission
fn c_arg(a: &Arg) -> String {
    match a {
        Arg::Id(i) => format!("(Some {})", i),
        Arg::Bad => "None".into(),
    }
}
fn c_exp(e: &Exp) -> String {
    match e {
        Exp::H(h) => format!("(AtHeight {})", h),
        Exp::T(t) => format!("(AtTime {})", t),
        Exp::Never => "Never".into(),
    }
}
fn c_coins(cs: &[(usize, Uint128)]) -> String {
    list(cs, |(d, n)| format!("({}, {})", d, n))
}
fn c_msg(m: &CMsg) -> String {
    match m {
        CMsg::BankSend { to, coins } => format!("(BankSend {} {})", to, c_coins(coins)),
        CMsg::BankBurn { coins } => format!("(BankBurn {})", c_coins(coins)),
        CMsg::Delegate => "Delegate".into(),
        CMsg::Undelegate => "Undelegate".into(),
        CMsg::Redelegate => "Redelegate".into(),
        CMsg::SetWithdraw => "SetWithdrawAddress".into(),
        CMsg::Withdraw => "WithdrawReward".into(),
        CMsg::Other(t) => format!("(OtherMsg {})", t),
    }
}
fn c_perm(p: &Perm) -> String {
    format!("(mkPerm {} {} {} {})", b(p.d), b(p.r), b(p.u), b(p.w))
}
fn c_op(op: &Op) -> String {
    match op {
        Op::Execute { msgs } => format!("(Execute {})", list(msgs, c_msg)),
        Op::Freeze => "Freeze".into(),
        Op::UpdateAdmins { l } => format!("(UpdateAdmins {})", list(l, c_arg)),
        Op::Inc { sp, c, e } => format!("(IncreaseAllowance {} ({}, {}) {})", c_arg(sp), c.0, c.1, opt(e, c_exp)),
        Op::Dec { sp, c, e } => format!("(DecreaseAllowance {} ({}, {}) {})", c_arg(sp), c.0, c.1, opt(e, c_exp)),
        Op::SetPerm { sp, p } => format!("(SetPermissions {} {})", c_arg(sp), c_perm(p)),
    }
}
fn c_al(a: &Al) -> String {
    format!(
        "(mkAllow {} {})",
        list(&a.bal, |(d, n)| format!("({}, {})", d, n)),
        match &a.exp {
            Some(e) => c_exp(e),
            None => "(AtHeight 0)".into(),
        }
    )
}
fn c_obs(o: &Obs) -> String {
    let als = |v: &Vec<(usize, Al)>| list(v, |(i, a)| format!("({}, {})", i, c_al(a)));
    let ps = |v: &Vec<(usize, Perm)>| list(v, |(i, p)| format!("({}, {})", i, c_perm(p)));
    format!(
        "(mkObs {} {} {} {} {} {} {})",
        list(&o.admins, |a| a.to_string()),
        b(o.mutable),
        als(&o.stored),
        als(&o.query),
        als(&o.listing),
        ps(&o.perms),
        ps(&o.perm_q)
    )
}
pub fn to_coq(ran: &Ran) -> String {
    let init = format!(
        "(mkInit {} {} {})",
        b(ran.trace.init.subkeys),
        list(&ran.trace.init.admins, c_arg),
        b(ran.trace.init.mutable)
    );
    let mut steps = vec![];
    for (st, (pred, hok, ok, relayed, exact, obs)) in ran.trace.steps.iter().zip(ran.results.iter()) {
        steps.push(format!(
            "TCall (mkBlock {} {}) {} {} {} {} {} {} {} {}",
            st.h,
            st.t,
            st.s,
            c_op(&st.op),
            opt(pred, |x| b(*x).to_string()),
            b(*hok),
            b(*ok),
            list(relayed, c_msg),
            b(*exact),
            c_obs(obs)
        ));
    }
    format!("mkTrace {} {} {} [{}]", init, b(ran.init_ok), c_obs(&ran.init_obs), steps.join(";\n  "))
}

pub const COQ_HEADER: &str = "Require Import CwPlus.Base CwPlus.AMap CwPlus.Cw1Model CwPlus.Cw1Check.\nOpen Scope N_scope.\n";

pub fn class_counts(rans: &[Ran]) -> BTreeMap<String, u64> {
    let mut m = BTreeMap::new();
    for r in rans {
        *m.entry(format!("instantiate|{}", if r.init_ok { "ok" } else { "fail" })).or_insert(0) += 1;
        for c in &r.classes {
            *m.entry(c.clone()).or_insert(0) += 1;
        }
    }
    m
}
