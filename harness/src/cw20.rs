//! cw20-base family (C01, C02, C13, C19): generated histories on the real contract inside
//! cw-multi-test, observations through the public queries, emitted as Coq traces.
use crate::coqfmt::{b, list, opt};
use crate::rng::Rng;
use crate::world::{log_clear, log_push, log_take, set_block, Pool, INVALID_ADDR};
use cosmwasm_std::{
    from_json, to_json_binary, Addr, Binary, CosmosMsg, Deps, DepsMut, Empty, Env, MessageInfo, Order,
    Response, StdError, StdResult, Uint128, WasmMsg,
};
use cw20::{
    AllAccountsResponse, AllAllowancesResponse, AllSpenderAllowancesResponse, AllowanceResponse,
    BalanceResponse, Cw20Coin, Cw20ExecuteMsg, Cw20ReceiveMsg, MinterResponse, TokenInfoResponse,
};
use cw20_base::msg::{InstantiateMsg, MigrateMsg, QueryMsg};
use cw_multi_test::{App, ContractWrapper, Executor};
use cw_utils::Expiration;
use serde::{Deserialize, Serialize};
use std::collections::BTreeMap;

// ---------------------------------------------------------------------------------------------
// trace format (JSON, replayable)

#[derive(Serialize, Deserialize, Clone, Debug, PartialEq)]
pub enum Arg {
    Id(usize),
    Bad,
}

#[derive(Serialize, Deserialize, Clone, Debug, PartialEq)]
pub enum Exp {
    H(u64),
    T(u64),
    Never,
}

#[derive(Serialize, Deserialize, Clone, Debug, PartialEq)]
pub enum Op {
    Transfer { to: Arg, n: Uint128 },
    Burn { n: Uint128 },
    Send { c: Arg, n: Uint128, p: u64 },
    Mint { to: Arg, n: Uint128 },
    Inc { sp: Arg, n: Uint128, e: Option<Exp> },
    Dec { sp: Arg, n: Uint128, e: Option<Exp> },
    TransferFrom { o: Arg, to: Arg, n: Uint128 },
    BurnFrom { o: Arg, n: Uint128 },
    SendFrom { o: Arg, c: Arg, n: Uint128, p: u64 },
    UpdateMinter { m: Option<Arg> },
    Migrate,
    Other,
}

#[derive(Serialize, Deserialize, Clone, Debug)]
pub enum Step {
    Call { h: u64, t: u64, s: usize, op: Op },
    Legacy,
}

#[derive(Serialize, Deserialize, Clone, Debug)]
pub struct Init {
    pub balances: Vec<(Arg, Uint128)>,
    pub minter: Option<(Arg, Option<Uint128>)>,
}

#[derive(Serialize, Deserialize, Clone, Debug)]
pub struct Trace {
    pub family: String,
    pub seed: u64,
    pub case: u64,
    pub users: usize,
    pub init: Init,
    pub steps: Vec<Step>,
}

// ---------------------------------------------------------------------------------------------
// wrapped entry points (plain fns: ContractWrapper takes function pointers)

fn w_execute(deps: DepsMut, env: Env, info: MessageInfo, msg: Cw20ExecuteMsg) -> Result<Response, cw20_base::ContractError> {
    let r = cw20_base::contract::execute(deps, env, info, msg);
    log_push(r.as_ref().map(|x| x.clone()).map_err(|e| e.to_string()));
    r
}
fn w_instantiate(deps: DepsMut, env: Env, info: MessageInfo, msg: InstantiateMsg) -> Result<Response, cw20_base::ContractError> {
    cw20_base::contract::instantiate(deps, env, info, msg)
}
fn w_query(deps: Deps, env: Env, msg: QueryMsg) -> StdResult<Binary> {
    cw20_base::contract::query(deps, env, msg)
}
fn w_migrate(deps: DepsMut, env: Env, msg: MigrateMsg) -> Result<Response, cw20_base::ContractError> {
    cw20_base::contract::migrate(deps, env, msg)
}

#[derive(Serialize, Deserialize, Clone, Debug)]
pub enum SudoMsg {
    /// emulate the storage of a pre-0.14 token: no spender map, old stored version
    Legacy {},
}
fn w_sudo(deps: DepsMut, env: Env, msg: SudoMsg) -> Result<Response, StdError> {
    match msg {
        SudoMsg::Legacy {} => {
            // namespace of Map::new("allowance_spender"): length-prefixed
            let ns = b"allowance_spender";
            let mut prefix = vec![0u8, ns.len() as u8];
            prefix.extend_from_slice(ns);
            let keys: Vec<Vec<u8>> = deps
                .storage
                .range(None, None, Order::Ascending)
                .map(|(k, _)| k)
                .filter(|k| k.starts_with(&prefix))
                .collect();
            for k in keys {
                deps.storage.remove(&k);
            }
            // any released version below 0.14.0 (single- and double-digit minors: a string comparison would misorder them)
            let v = ["0.13.4", "0.9.1", "0.10.0", "0.2.3", "0.13.0"][(env.block.height % 5) as usize];
            cw2::set_contract_version(deps.storage, "crates.io:cw20-base", v)?;
            Ok(Response::new())
        }
    }
}

// receiver contract: accepts Cw20ReceiveMsg unless the payload asks it to fail
#[derive(Serialize, Deserialize, Clone, Debug)]
#[serde(rename_all = "snake_case")]
pub enum RecvExec {
    Receive(Cw20ReceiveMsg),
}
fn r_execute(_deps: DepsMut, _env: Env, _info: MessageInfo, msg: RecvExec) -> Result<Response, StdError> {
    match msg {
        RecvExec::Receive(m) => {
            if payload_fails(&m.msg) {
                Err(StdError::generic_err("receiver refuses"))
            } else {
                Ok(Response::new())
            }
        }
    }
}
fn r_instantiate(_deps: DepsMut, _env: Env, _info: MessageInfo, _msg: Empty) -> Result<Response, StdError> {
    Ok(Response::new())
}
fn r_query(_deps: Deps, _env: Env, _msg: Empty) -> StdResult<Binary> {
    to_json_binary(&Empty {})
}

fn payload_bin(p: u64) -> Binary {
    Binary::from(p.to_string().as_bytes())
}
fn payload_num(bin: &Binary) -> Option<u64> {
    std::str::from_utf8(bin.as_slice()).ok().and_then(|s| s.parse().ok())
}
fn payload_fails(bin: &Binary) -> bool {
    payload_num(bin).map(|p| p % 4 == 3).unwrap_or(true)
}

// ---------------------------------------------------------------------------------------------
// observation

#[derive(Clone, Debug, Default, PartialEq)]
pub struct Al {
    pub amt: u128,
    pub exp: Exp2,
}
#[derive(Clone, Debug, PartialEq)]
pub enum Exp2 {
    H(u64),
    T(u64),
    Never,
}
impl Default for Exp2 {
    fn default() -> Self {
        Exp2::Never
    }
}
fn exp2(e: &Expiration) -> Exp2 {
    match e {
        Expiration::AtHeight(h) => Exp2::H(*h),
        Expiration::AtTime(t) => Exp2::T(t.nanos()),
        Expiration::Never {} => Exp2::Never,
    }
}

#[derive(Clone, Debug, Default)]
pub struct Obs {
    pub supply: u128,
    pub accounts: Vec<(usize, u128)>,
    pub unlisted: Vec<(usize, u128)>,
    pub minter: Option<(usize, Option<u128>)>,
    pub owner: Vec<((usize, usize), Al)>,
    pub spender: Vec<((usize, usize), Al)>,
    pub point: Vec<((usize, usize), Al)>,
    /// anything the harness could not map to the pool (unknown address in a listing, ...)
    pub anomalies: Vec<String>,
}

pub struct World {
    pub app: App,
    pub pool: Pool,
    pub token: Option<Addr>,
    pub receiver: Addr,
    pub admin: Addr,
    pub code_id: u64,
    pub height: u64,
    pub time: u64,
}

const ANOMALY_ID: usize = 999_999;

/// the token contract with the migrate entry point and the storage-downgrade hook (used by the paging walks)
pub fn legacy_capable_code(app: &mut App) -> u64 {
    app.store_code(Box::new(
        ContractWrapper::new(cw20_base::contract::execute, cw20_base::contract::instantiate, cw20_base::contract::query)
            .with_migrate(w_migrate)
            .with_sudo(w_sudo),
    ))
}

impl World {
    pub fn new(users: usize) -> World {
        let mut app = App::default();
        let admin = app.api().addr_make("admin");
        let code_id = app.store_code(Box::new(
            ContractWrapper::new(w_execute, w_instantiate, w_query)
                .with_migrate(w_migrate)
                .with_sudo(w_sudo),
        ));
        let recv_id = app.store_code(Box::new(ContractWrapper::new(r_execute, r_instantiate, r_query)));
        let receiver = app
            .instantiate_contract(recv_id, admin.clone(), &Empty {}, &[], "receiver", None)
            .unwrap();
        let mut addrs: Vec<Addr> = (0..users).map(|i| app.api().addr_make(&format!("user{}", i))).collect();
        addrs.push(receiver.clone());
        let pool = Pool::new(addrs);
        let mut w = World { app, pool, token: None, receiver, admin, code_id, height: 100, time: 1_000_000 };
        set_block(&mut w.app, w.height, w.time);
        w
    }

    pub fn arg(&self, a: &Arg) -> String {
        match a {
            Arg::Id(i) => self.pool.addr(*i).to_string(),
            Arg::Bad => INVALID_ADDR.to_string(),
        }
    }

    pub fn instantiate(&mut self, init: &Init) -> bool {
        let msg = InstantiateMsg {
            name: "Verif Token".into(),
            symbol: "VRF".into(),
            decimals: 6,
            initial_balances: init
                .balances
                .iter()
                .map(|(a, n)| Cw20Coin { address: self.arg(a), amount: *n })
                .collect(),
            mint: init.minter.as_ref().map(|(a, cap)| MinterResponse { minter: self.arg(a), cap: *cap }),
            marketing: None,
        };
        let admin = self.admin.clone();
        let code_id = self.code_id;
        let r = std::panic::catch_unwind(std::panic::AssertUnwindSafe(|| {
            self.app
                .instantiate_contract(code_id, admin.clone(), &msg, &[], "token", Some(admin.to_string()))
        }));
        match r {
            Ok(Ok(addr)) => {
                self.token = Some(addr);
                true
            }
            _ => false,
        }
    }

    fn id_of(&self, s: &str, anomalies: &mut Vec<String>) -> usize {
        match self.pool.id(s) {
            Some(i) => i,
            None => {
                anomalies.push(format!("address outside the pool: {}", s));
                ANOMALY_ID
            }
        }
    }

    pub fn observe(&self) -> Obs {
        let token = self.token.clone().unwrap();
        let q = self.app.wrap();
        let mut o = Obs::default();
        let ti: TokenInfoResponse = q.query_wasm_smart(&token, &QueryMsg::TokenInfo {}).unwrap();
        o.supply = ti.total_supply.u128();
        // AllAccounts paged to the end
        let mut listed: Vec<String> = vec![];
        let mut start: Option<String> = None;
        loop {
            let r: AllAccountsResponse = q
                .query_wasm_smart(&token, &QueryMsg::AllAccounts { start_after: start.clone(), limit: Some(30) })
                .unwrap();
            if r.accounts.is_empty() {
                break;
            }
            start = r.accounts.last().cloned();
            listed.extend(r.accounts);
            if listed.len() > 10_000 {
                o.anomalies.push("AllAccounts does not terminate".into());
                break;
            }
        }
        for a in &listed {
            let bal: BalanceResponse = q.query_wasm_smart(&token, &QueryMsg::Balance { address: a.clone() }).unwrap();
            let id = self.id_of(a, &mut o.anomalies);
            o.accounts.push((id, bal.balance.u128()));
        }
        for (i, a) in self.pool.addrs.iter().enumerate() {
            if !listed.iter().any(|x| x == a.as_str()) {
                let bal: BalanceResponse =
                    q.query_wasm_smart(&token, &QueryMsg::Balance { address: a.to_string() }).unwrap();
                if !bal.balance.is_zero() {
                    o.unlisted.push((i, bal.balance.u128()));
                }
            }
        }
        let m: Option<MinterResponse> = q.query_wasm_smart(&token, &QueryMsg::Minter {}).unwrap();
        o.minter = m.map(|m| (self.id_of(&m.minter, &mut o.anomalies), m.cap.map(|c| c.u128())));
        for (i, a) in self.pool.addrs.iter().enumerate() {
            // owner listing
            let mut start: Option<String> = None;
            let mut n = 0;
            loop {
                let r: AllAllowancesResponse = q
                    .query_wasm_smart(
                        &token,
                        &QueryMsg::AllAllowances { owner: a.to_string(), start_after: start.clone(), limit: Some(30) },
                    )
                    .unwrap();
                if r.allowances.is_empty() {
                    break;
                }
                start = r.allowances.last().map(|x| x.spender.clone());
                for e in r.allowances {
                    let s = self.id_of(&e.spender, &mut o.anomalies);
                    o.owner.push(((i, s), Al { amt: e.allowance.u128(), exp: exp2(&e.expires) }));
                }
                n += 1;
                if n > 1000 {
                    o.anomalies.push("AllAllowances does not terminate".into());
                    break;
                }
            }
            // spender listing
            let mut start: Option<String> = None;
            let mut n = 0;
            loop {
                let r: AllSpenderAllowancesResponse = q
                    .query_wasm_smart(
                        &token,
                        &QueryMsg::AllSpenderAllowances {
                            spender: a.to_string(),
                            start_after: start.clone(),
                            limit: Some(30),
                        },
                    )
                    .unwrap();
                if r.allowances.is_empty() {
                    break;
                }
                start = r.allowances.last().map(|x| x.owner.clone());
                for e in r.allowances {
                    let ow = self.id_of(&e.owner, &mut o.anomalies);
                    o.spender.push(((i, ow), Al { amt: e.allowance.u128(), exp: exp2(&e.expires) }));
                }
                n += 1;
                if n > 1000 {
                    o.anomalies.push("AllSpenderAllowances does not terminate".into());
                    break;
                }
            }
            // point queries
            for (j, s) in self.pool.addrs.iter().enumerate() {
                let r: AllowanceResponse = q
                    .query_wasm_smart(&token, &QueryMsg::Allowance { owner: a.to_string(), spender: s.to_string() })
                    .unwrap();
                let al = Al { amt: r.allowance.u128(), exp: exp2(&r.expires) };
                if al != Al::default() {
                    o.point.push(((i, j), al));
                }
            }
        }
        o
    }

    fn to_msg(&self, op: &Op) -> Option<Cw20ExecuteMsg> {
        let e = |x: &Option<Exp>| {
            x.as_ref().map(|e| match e {
                Exp::H(h) => Expiration::AtHeight(*h),
                Exp::T(t) => Expiration::AtTime(cosmwasm_std::Timestamp::from_nanos(*t)),
                Exp::Never => Expiration::Never {},
            })
        };
        Some(match op {
            Op::Transfer { to, n } => Cw20ExecuteMsg::Transfer { recipient: self.arg(to), amount: *n },
            Op::Burn { n } => Cw20ExecuteMsg::Burn { amount: *n },
            Op::Send { c, n, p } => Cw20ExecuteMsg::Send { contract: self.arg(c), amount: *n, msg: payload_bin(*p) },
            Op::Mint { to, n } => Cw20ExecuteMsg::Mint { recipient: self.arg(to), amount: *n },
            Op::Inc { sp, n, e: ex } => {
                Cw20ExecuteMsg::IncreaseAllowance { spender: self.arg(sp), amount: *n, expires: e(ex) }
            }
            Op::Dec { sp, n, e: ex } => {
                Cw20ExecuteMsg::DecreaseAllowance { spender: self.arg(sp), amount: *n, expires: e(ex) }
            }
            Op::TransferFrom { o, to, n } => {
                Cw20ExecuteMsg::TransferFrom { owner: self.arg(o), recipient: self.arg(to), amount: *n }
            }
            Op::BurnFrom { o, n } => Cw20ExecuteMsg::BurnFrom { owner: self.arg(o), amount: *n },
            Op::SendFrom { o, c, n, p } => Cw20ExecuteMsg::SendFrom {
                owner: self.arg(o),
                contract: self.arg(c),
                amount: *n,
                msg: payload_bin(*p),
            },
            Op::UpdateMinter { m } => Cw20ExecuteMsg::UpdateMinter { new_minter: m.as_ref().map(|a| self.arg(a)) },
            Op::Other => Cw20ExecuteMsg::UpdateMarketing {
                project: Some("p".into()),
                description: None,
                marketing: None,
            },
            Op::Migrate => return None,
        })
    }

    /// is the target of a Send able to accept the notification?
    pub fn recv_ok(&self, op: &Op) -> bool {
        let (c, p) = match op {
            Op::Send { c, p, .. } => (c, p),
            Op::SendFrom { c, p, .. } => (c, p),
            _ => return true,
        };
        match c {
            Arg::Id(i) => self.pool.addr(*i) == self.receiver && p % 4 != 3,
            Arg::Bad => false,
        }
    }

    /// returns (ok, messages emitted by the handler of a committed call)
    pub fn call(&mut self, h: u64, t: u64, s: usize, op: &Op) -> (bool, Vec<(usize, usize, u128, u64)>) {
        self.height = h;
        self.time = t;
        set_block(&mut self.app, h, t);
        let token = self.token.clone().unwrap();
        let sender = self.pool.addr(s);
        log_clear();
        let code_id = self.code_id;
        let admin = self.admin.clone();
        let msg = self.to_msg_static(op);
        let app = &mut self.app;
        let r = std::panic::catch_unwind(std::panic::AssertUnwindSafe(|| match msg {
            Some(m) => app.execute_contract(sender.clone(), token.clone(), &m, &[]).is_ok(),
            None => app.migrate_contract(admin.clone(), token.clone(), &MigrateMsg {}, code_id).is_ok(),
        }));
        let ok = matches!(r, Ok(true));
        let log = log_take();
        let mut msgs = vec![];
        if ok {
            if let Some(Ok(resp)) = log.first() {
                for sm in &resp.messages {
                    match &sm.msg {
                        CosmosMsg::Wasm(WasmMsg::Execute { contract_addr, msg, funds }) if funds.is_empty() => {
                            match from_json::<RecvExec>(msg) {
                                Ok(RecvExec::Receive(rm)) => {
                                    let c = self.pool.id(contract_addr).unwrap_or(ANOMALY_ID);
                                    let sd = self.pool.id(&rm.sender).unwrap_or(ANOMALY_ID);
                                    msgs.push((c, sd, rm.amount.u128(), payload_num(&rm.msg).unwrap_or(u64::MAX)));
                                }
                                Err(_) => msgs.push((ANOMALY_ID, ANOMALY_ID, 0, 0)),
                            }
                        }
                        _ => msgs.push((ANOMALY_ID, ANOMALY_ID, 0, 1)),
                    }
                }
            }
        }
        (ok, msgs)
    }

    fn to_msg_static(&self, op: &Op) -> Option<Cw20ExecuteMsg> {
        self.to_msg(op)
    }

    pub fn legacy(&mut self) {
        let token = self.token.clone().unwrap();
        self.app.wasm_sudo(token, &SudoMsg::Legacy {}).unwrap();
    }
}

// ---------------------------------------------------------------------------------------------
// running a trace (replay) and generating one (state-aware)

pub struct Ran {
    pub trace: Trace,
    pub init_ok: bool,
    pub init_obs: Obs,
    /// per step: (recv_ok, ok, msgs, obs)
    pub results: Vec<(bool, bool, Vec<(usize, usize, u128, u64)>, Obs)>,
    pub classes: Vec<String>,
}

fn op_kind(op: &Op) -> &'static str {
    match op {
        Op::Transfer { .. } => "transfer",
        Op::Burn { .. } => "burn",
        Op::Send { .. } => "send",
        Op::Mint { .. } => "mint",
        Op::Inc { .. } => "increase_allowance",
        Op::Dec { .. } => "decrease_allowance",
        Op::TransferFrom { .. } => "transfer_from",
        Op::BurnFrom { .. } => "burn_from",
        Op::SendFrom { .. } => "send_from",
        Op::UpdateMinter { .. } => "update_minter",
        Op::Migrate => "migrate",
        Op::Other => "other",
    }
}

pub fn replay(trace: &Trace) -> Ran {
    let mut w = World::new(trace.users);
    let init_ok = w.instantiate(&trace.init);
    let mut ran = Ran { trace: trace.clone(), init_ok, init_obs: Obs::default(), results: vec![], classes: vec![] };
    if !init_ok {
        return ran;
    }
    ran.init_obs = w.observe();
    for st in &trace.steps {
        match st {
            Step::Call { h, t, s, op } => {
                let rok = w.recv_ok(op);
                let (ok, msgs) = w.call(*h, *t, *s, op);
                let obs = w.observe();
                ran.classes.push(format!("{}|{}", op_kind(op), if ok { "ok" } else { "fail" }));
                ran.results.push((rok, ok, msgs, obs));
            }
            Step::Legacy => {
                w.legacy();
                let obs = w.observe();
                ran.classes.push("legacy".into());
                ran.results.push((true, true, vec![], obs));
            }
        }
    }
    ran
}

fn pick_amount(r: &mut Rng, hints: &[u128]) -> Uint128 {
    let x = match r.below(40) {
        0 | 1 => 0,
        2 | 3 => 1,
        4 => u128::MAX,
        5 | 6 => r.below(1000) as u128,
        7 => r.u128(),
        _ => {
            if hints.is_empty() {
                r.below(100) as u128
            } else {
                let h = *r.pick(hints);
                match r.below(8) {
                    0 | 1 => h,
                    2 => h.saturating_add(1),
                    3 => h.saturating_sub(1),
                    4 | 5 => h / 2,
                    6 => h / 3,
                    _ => (r.below(20) as u128).min(h),
                }
            }
        }
    };
    Uint128::new(x)
}

fn pick_arg(r: &mut Rng, n: usize) -> Arg {
    if r.chance(1, 40) {
        Arg::Bad
    } else {
        Arg::Id(r.below(n as u64) as usize)
    }
}

fn pick_exp(r: &mut Rng, h: u64, t: u64) -> Option<Exp> {
    match r.below(12) {
        0..=3 => None,
        4 | 5 => Some(Exp::Never),
        6 => Some(Exp::H(h)), // already expired: must be rejected
        7 => Some(Exp::H(h + 1 + r.below(20))),
        8 => Some(Exp::T(t)), // already expired
        9 => Some(Exp::T(t + 1 + r.below(20) * 1000)),
        10 => Some(Exp::T(t + 1000)),
        _ => Some(Exp::H(h + 1)),
    }
}

pub fn generate(seed: u64, case: u64, max_steps: usize) -> Ran {
    let mut r = Rng::new(seed ^ case.wrapping_mul(0xA24BAED4963EE407));
    let users = 4 + r.below(2) as usize;
    let mut w = World::new(users);
    let n = w.pool.len();
    let big = r.chance(1, 6); // a trace near the u128 edge
    // ---- instantiate
    let mut balances = vec![];
    let nb = if r.chance(1, 10) { 0 } else { 1 + r.below(5) as usize };
    let mut ids: Vec<usize> = (0..n).collect();
    for _ in 0..nb {
        if ids.is_empty() {
            break;
        }
        let k = r.below(ids.len() as u64) as usize;
        let id = ids.remove(k);
        let amt = if big {
            match r.below(5) {
                0 => u128::MAX / 2,
                1 => u128::MAX / 3,
                2 => u128::MAX - 1000,
                3 => u128::MAX / 2 + 1,
                _ => r.below(2000) as u128,
            }
        } else {
            match r.below(10) {
                0 => 0,
                _ => 1 + r.below(2000) as u128,
            }
        };
        balances.push((Arg::Id(id), Uint128::new(amt)));
    }
    if r.chance(1, 25) && !balances.is_empty() {
        let d = balances[0].clone();
        balances.push((d.0, Uint128::new(r.below(50) as u128))); // duplicate: must be rejected
    }
    if r.chance(1, 50) {
        balances.push((Arg::Bad, Uint128::new(5)));
    }
    if r.chance(1, 14) {
        // empty (or all-zero) initial supply: the cap edge cases 0 and 1 become reachable
        if r.chance(1, 2) {
            balances.clear();
        } else {
            for b in balances.iter_mut() {
                b.1 = Uint128::zero();
            }
        }
    }
    let total: u128 = balances.iter().fold(0u128, |a, (_, x)| a.saturating_add(x.u128()));
    let minter = match if big && r.chance(1, 3) { 99 } else { r.below(10) } {
        99 => Some((pick_arg(&mut r, n), Some(Uint128::MAX))), // the cap at the very edge of u128
        0 if r.chance(1, 3) => Some((pick_arg(&mut r, n), Some(Uint128::zero()))), // cap 0, whatever the initial supply
        0 | 1 => None,
        2..=4 => Some((pick_arg(&mut r, n), None)),
        5..=7 => Some((pick_arg(&mut r, n), Some(Uint128::new(total.saturating_add(r.below(500) as u128))))),
        _ => Some((
            pick_arg(&mut r, n),
            Some(Uint128::new(match r.below(4) {
                0 => total,
                1 => total.saturating_sub(1),
                _ => total.saturating_add(1),
            })),
        )),
    };
    let init = Init { balances, minter };
    let init_ok = w.instantiate(&init);
    let mut ran = Ran {
        trace: Trace { family: "cw20".into(), seed, case, users, init, steps: vec![] },
        init_ok,
        init_obs: Obs::default(),
        results: vec![],
        classes: vec![],
    };
    if !init_ok {
        return ran;
    }
    ran.init_obs = w.observe();
    let mut cur = ran.init_obs.clone();
    let nsteps = 1 + r.below(max_steps as u64) as usize;
    let mut did_legacy = false;
    let recv_id = w.pool.id(w.receiver.as_str()).unwrap();
    for _ in 0..nsteps {
        // block advance
        let (mut h, mut t) = (w.height, w.time);
        if r.chance(1, 3) {
            h += 1 + r.below(2);
            t += 1000 * (1 + r.below(3));
        }
        if !did_legacy && r.chance(1, 60) {
            // migration from the pre-0.14 layout: strip, then migrate at once
            did_legacy = true;
            w.legacy();
            let obs = w.observe();
            ran.trace.steps.push(Step::Legacy);
            ran.classes.push("legacy".into());
            ran.results.push((true, true, vec![], obs));
            let op = Op::Migrate;
            let (ok, msgs) = w.call(h, t, 0, &op);
            let obs = w.observe();
            ran.classes.push(format!("migrate_legacy|{}", if ok { "ok" } else { "fail" }));
            ran.trace.steps.push(Step::Call { h, t, s: 0, op });
            cur = obs.clone();
            ran.results.push((true, ok, msgs, obs));
            continue;
        }
        let balance_of = |a: usize| cur.accounts.iter().find(|(x, _)| *x == a).map(|x| x.1).unwrap_or(0);
        let holders: Vec<usize> = cur.accounts.iter().filter(|(_, b)| *b > 0).map(|(a, _)| *a).collect();
        let any = r.below(n as u64) as usize;
        let holder = if !holders.is_empty() && r.chance(5, 6) { *r.pick(&holders) } else { any };
        let edge = [u128::MAX - cur.supply];
        let kind = r.below(100);
        let (s, op) = match kind {
            0..=14 => {
                let hs = [balance_of(holder)];
                (holder, Op::Transfer { to: pick_arg(&mut r, n), n: pick_amount(&mut r, &hs) })
            }
            15..=20 => {
                let hs = [balance_of(holder)];
                (holder, Op::Burn { n: pick_amount(&mut r, &hs) })
            }
            21..=28 => {
                let c = if r.chance(3, 4) { Arg::Id(recv_id) } else { pick_arg(&mut r, n) };
                let hs = [balance_of(holder)];
                (holder, Op::Send { c, n: pick_amount(&mut r, &hs), p: r.below(8) })
            }
            29..=38 => {
                let s = match &cur.minter {
                    Some((m, _)) if r.chance(5, 6) => *m,
                    _ => any,
                };
                let mut hs = vec![r.below(300) as u128, r.below(300) as u128];
                if let Some((_, Some(cap))) = cur.minter {
                    hs.push(cap.saturating_sub(cur.supply));
                }
                if big {
                    hs.extend_from_slice(&edge);
                }
                if big && r.chance(1, 3) {
                    // just past the u128 edge of the supply, to an account that can still hold it
                    let small = cur.accounts.iter().min_by_key(|(_, b)| *b).map(|(a, _)| *a).unwrap_or(any);
                    (s, Op::Mint { to: Arg::Id(small), n: Uint128::new((u128::MAX - cur.supply).saturating_add(1 + r.below(20) as u128)) })
                } else {
                    (s, Op::Mint { to: pick_arg(&mut r, n), n: pick_amount(&mut r, &hs) })
                }
            }
            39..=52 => {
                // topping up an allowance that was drawn down to exactly zero (its record and expiry are still stored)
                let zeros: Vec<_> = cur.owner.iter().filter(|e| e.1.amt == 0).cloned().collect();
                if !zeros.is_empty() && r.chance(1, 2) {
                    let e = r.pick(&zeros).clone();
                    ((e.0).0, Op::Inc { sp: Arg::Id((e.0).1), n: pick_amount(&mut r, &[5, 40]), e: if r.chance(2, 3) { None } else { pick_exp(&mut r, h, t) } })
                } else {
                    let hs = [balance_of(holder), r.below(500) as u128, if big { u128::MAX } else { 77 }];
                    let sp = pick_arg(&mut r, n);
                    // the receiving contract itself may own tokens and grant allowances (a SendFrom can then name it as
                    // owner and as receiving contract at once)
                    let owner = if r.chance(1, 8) { recv_id } else { holder };
                    (owner, Op::Inc { sp, n: pick_amount(&mut r, &hs), e: pick_exp(&mut r, h, t) })
                }
            }
            53..=61 => {
                if !cur.owner.is_empty() && r.chance(5, 6) {
                    let e = r.pick(&cur.owner).clone();
                    let hs = [e.1.amt];
                    ((e.0).0, Op::Dec { sp: Arg::Id((e.0).1), n: pick_amount(&mut r, &hs), e: pick_exp(&mut r, h, t) })
                } else {
                    (any, Op::Dec { sp: pick_arg(&mut r, n), n: pick_amount(&mut r, &[5]), e: pick_exp(&mut r, h, t) })
                }
            }
            62..=90 => {
                // a draw: usually by a spender that holds an allowance
                let (s, o, hs) = if !cur.owner.is_empty() && r.chance(7, 8) {
                    let e = r.pick(&cur.owner).clone();
                    let ob = balance_of((e.0).0);
                    ((e.0).1, Arg::Id((e.0).0), vec![e.1.amt, e.1.amt.min(ob), e.1.amt.min(ob), ob])
                } else {
                    (any, pick_arg(&mut r, n), vec![3])
                };
                match kind {
                    62..=76 => (s, Op::TransferFrom { o, to: pick_arg(&mut r, n), n: pick_amount(&mut r, &hs) }),
                    77..=83 => (s, Op::BurnFrom { o, n: pick_amount(&mut r, &hs) }),
                    _ => {
                        let c = if o == Arg::Id(recv_id) || r.chance(3, 4) { Arg::Id(recv_id) } else { pick_arg(&mut r, n) };
                        (s, Op::SendFrom { o, c, n: pick_amount(&mut r, &hs), p: r.below(8) })
                    }
                }
            }
            91..=95 => {
                let s = match &cur.minter {
                    Some((m, _)) if r.chance(3, 4) => *m,
                    _ => any,
                };
                (s, Op::UpdateMinter { m: if r.chance(1, 5) { None } else { Some(pick_arg(&mut r, n)) } })
            }
            96..=97 => (any, Op::Migrate),
            _ => (any, Op::Other),
        };
        let rok = w.recv_ok(&op);
        let (ok, msgs) = w.call(h, t, s, &op);
        let obs = w.observe();
        ran.classes.push(format!("{}|{}", op_kind(&op), if ok { "ok" } else { "fail" }));
        ran.trace.steps.push(Step::Call { h, t, s, op });
        cur = obs.clone();
        ran.results.push((rok, ok, msgs, obs));
    }
    // appended to some histories (decided by a generator of its own, so that the random part above is what it always was):
    // two accounts grant each other, then one grant is lowered to exactly the other's amount and deadline - the two
    // entries then coincide in everything but their direction, in both tables
    let mut r2 = Rng::new(seed ^ case.wrapping_mul(0x9E3779B97F4A7C15) ^ 0x5EED_C19);
    if init_ok && r2.chance(1, 6) && n >= 3 {
        let has = |a: usize, b: usize| cur.owner.iter().any(|e| e.0 == (a, b));
        let pairs: Vec<(usize, usize)> =
            (0..n).flat_map(|a| (0..n).map(move |b| (a, b))).filter(|(a, b)| a != b && *a != recv_id && *b != recv_id && !has(*a, *b) && !has(*b, *a)).collect();
        if !pairs.is_empty() {
            let (a, b) = *r2.pick(&pairs);
            let y = 1 + r2.below(9) as u128;
            let x = y + 1 + r2.below(9) as u128;
            let (h, t) = (w.height, w.time);
            let e = match r2.below(3) { 0 => None, 1 => Some(Exp::H(h + 50)), _ => Some(Exp::T(t + 50_000)) };
            let mut steps = vec![
                (a, Op::Inc { sp: Arg::Id(b), n: Uint128::new(x), e: e.clone() }),
                (b, Op::Inc { sp: Arg::Id(a), n: Uint128::new(y), e: e.clone() }),
                (a, Op::Dec { sp: Arg::Id(b), n: Uint128::new(x - y), e: None }),
            ];
            if r2.chance(1, 2) {
                steps.push((b, Op::TransferFrom { o: Arg::Id(a), to: Arg::Id(b), n: Uint128::new(1) }));
            }
            steps.push((b, Op::Dec { sp: Arg::Id(a), n: Uint128::new(1), e: None }));
            for (s, op) in steps {
                let rok = w.recv_ok(&op);
                let (ok, msgs) = w.call(h, t, s, &op);
                let obs = w.observe();
                ran.classes.push(format!("{}|{}", op_kind(&op), if ok { "ok" } else { "fail" }));
                ran.trace.steps.push(Step::Call { h, t, s, op });
                ran.results.push((rok, ok, msgs, obs));
            }
        }
    }
    ran
}

// ---------------------------------------------------------------------------------------------
// Coq emission

fn c_arg(a: &Arg) -> String {
    match a {
        Arg::Id(i) => format!("(Some {})", i),
        Arg::Bad => "None".into(),
    }
}
fn c_exp(e: &Exp) -> String {
    match e {
        Exp::H(h) => format!("(AtHeight {})", h),
        Exp::T(t) => format!("(AtTime {})", t),
        Exp::Never => "Never".into(),
    }
}
fn c_exp2(e: &Exp2) -> String {
    match e {
        Exp2::H(h) => format!("(AtHeight {})", h),
        Exp2::T(t) => format!("(AtTime {})", t),
        Exp2::Never => "Never".into(),
    }
}
fn c_op(op: &Op) -> String {
    match op {
        Op::Transfer { to, n } => format!("(Transfer {} {})", c_arg(to), n),
        Op::Burn { n } => format!("(Burn {})", n),
        Op::Send { c, n, p } => format!("(Send {} {} {})", c_arg(c), n, p),
        Op::Mint { to, n } => format!("(Mint {} {})", c_arg(to), n),
        Op::Inc { sp, n, e } => format!("(IncreaseAllowance {} {} {})", c_arg(sp), n, opt(e, c_exp)),
        Op::Dec { sp, n, e } => format!("(DecreaseAllowance {} {} {})", c_arg(sp), n, opt(e, c_exp)),
        Op::TransferFrom { o, to, n } => format!("(TransferFrom {} {} {})", c_arg(o), c_arg(to), n),
        Op::BurnFrom { o, n } => format!("(BurnFrom {} {})", c_arg(o), n),
        Op::SendFrom { o, c, n, p } => format!("(SendFrom {} {} {} {})", c_arg(o), c_arg(c), n, p),
        Op::UpdateMinter { m } => format!("(UpdateMinter {})", opt(m, c_arg)),
        Op::Migrate => "Migrate".into(),
        Op::Other => "Other".into(),
    }
}
fn c_al(e: &((usize, usize), Al)) -> String {
    format!("(({}, {}), mkAl {} {})", (e.0).0, (e.0).1, e.1.amt, c_exp2(&e.1.exp))
}
fn c_obs(o: &Obs) -> String {
    let pairs = |v: &Vec<(usize, u128)>| list(v, |(a, n)| format!("({}, {})", a, n));
    // an anomaly (address outside the pool etc.) is made visible as an unlisted holder entry
    let mut unl = o.unlisted.clone();
    for _ in &o.anomalies {
        unl.push((ANOMALY_ID, 1));
    }
    format!(
        "(mkObs {} {} {} {} {} {} {})",
        o.supply,
        pairs(&o.accounts),
        pairs(&unl),
        opt(&o.minter, |(m, c)| format!("({}, {})", m, opt(c, |x| x.to_string()))),
        list(&o.owner, c_al),
        list(&o.spender, c_al),
        list(&o.point, c_al),
    )
}

pub fn to_coq(ran: &Ran) -> String {
    let init = format!(
        "(mkInit {} {})",
        list(&ran.trace.init.balances, |(a, n)| format!("({}, {})", c_arg(a), n)),
        opt(&ran.trace.init.minter, |(a, c)| format!("({}, {})", c_arg(a), opt(c, |x| x.to_string()))),
    );
    let mut steps = vec![];
    for (st, (rok, ok, msgs, obs)) in ran.trace.steps.iter().zip(ran.results.iter()) {
        match st {
            Step::Call { h, t, s, op } => steps.push(format!(
                "TCall (mkBlock {} {}) {} {} {} {} {} {}",
                h,
                t,
                s,
                c_op(op),
                b(*rok),
                b(*ok),
                list(msgs, |(c, sd, n, p)| format!("({}, {}, {}, {})", c, sd, n, p)),
                c_obs(obs)
            )),
            Step::Legacy => steps.push(format!("TLegacy {}", c_obs(obs))),
        }
    }
    format!(
        "mkTrace {} {} {} [{}]",
        init,
        b(ran.init_ok),
        c_obs(&ran.init_obs),
        steps.join(";\n  ")
    )
}

pub const COQ_HEADER: &str = "Require Import CwPlus.Base CwPlus.AMap CwPlus.Cw20Model CwPlus.Cw20Check.\nOpen Scope N_scope.\n";

pub fn class_counts(rans: &[Ran]) -> BTreeMap<String, u64> {
    let mut m = BTreeMap::new();
    for r in rans {
        *m.entry(format!("instantiate|{}", if r.init_ok { "ok" } else { "fail" })).or_insert(0) += 1;
        for c in &r.classes {
            *m.entry(c.clone()).or_insert(0) += 1;
        }
    }
    m
}
