mod c04;
mod c20;
mod coqfmt;
mod cw1;
mod cw20;
mod cw3;
mod cw4;
mod ics20;
mod world;
mod rng;
mod shard;

use std::collections::BTreeMap;
use std::fs;
use std::io::Write;
use std::path::PathBuf;

fn arg(args: &[String], name: &str) -> Option<String> {
    args.iter().position(|a| a == name).and_then(|i| args.get(i + 1).cloned())
}

fn main() {
    std::panic::set_hook(Box::new(|_| {})); // panics of the code under test are outcomes, not noise
    let args: Vec<String> = std::env::args().collect();
    if args.len() < 3 {
        eprintln!("usage: verif-harness <family> <gen|exhaustive|replay> [--seed N] [--count N] [--out DIR] [--file F]");
        std::process::exit(2);
    }
    let family = args[1].as_str();
    let mode = args[2].as_str();
    let seed: u64 = arg(&args, "--seed").and_then(|s| s.parse().ok()).unwrap_or(1);
    let count: usize = arg(&args, "--count").and_then(|s| s.parse().ok()).unwrap_or(100);
    let out = PathBuf::from(arg(&args, "--out").unwrap_or_else(|| "out".into()));
    let shard_size: usize = arg(&args, "--shard").and_then(|s| s.parse().ok()).unwrap_or(2000);
    fs::create_dir_all(&out).unwrap();
    match family {
        "c04" => run_c04(mode, seed, count, &out, shard_size, &args),
        "cw20" => run_cw20(mode, seed, count, &out, shard_size, &args),
        "cw1" => run_cw1(mode, seed, count, &out, shard_size, &args),
        "cw4" => run_cw4(mode, seed, count, &out, shard_size, &args),
        "cw3" => run_cw3(mode, seed, count, &out, shard_size, &args),
        "ics20" => run_ics20(mode, seed, count, &out, shard_size, &args),
        "c20" => run_c20(mode, &out, shard_size, &args),
        _ => {
            eprintln!("unknown family {}", family);
            std::process::exit(2);
        }
    }
}

fn run_c04(mode: &str, seed: u64, count: usize, out: &PathBuf, shard_size: usize, args: &[String]) {
    let cases: Vec<c04::Case> = match mode {
        "gen" => {
            let mut r = rng::Rng::new(seed);
            (0..count).map(|_| c04::gen_case(&mut r)).collect()
        }
        "exhaustive" => {
            let tmax: u64 = arg(args, "--tmax").and_then(|s| s.parse().ok()).unwrap_or(6);
            c04::exhaustive(tmax)
        }
        "replay" => {
            let f = arg(args, "--file").expect("--file");
            let text = fs::read_to_string(f).unwrap();
            text.lines()
                .filter(|l| l.trim_start().starts_with('{'))
                .map(|l| {
                    let mut c: c04::Case = serde_json::from_str(l).unwrap();
                    c04::run_impl(&mut c);
                    c
                })
                .collect()
        }
        _ => panic!("mode"),
    };
    let items: Vec<String> = cases.iter().map(c04::to_coq).collect();
    let names = shard::write_list_shards(out, "c04", c04::COQ_HEADER, "c04_case", &["check_c04_all".to_string()], &items, shard_size);
    let mut jf = fs::File::create(out.join("cases.jsonl")).unwrap();
    let mut classes: BTreeMap<String, u64> = BTreeMap::new();
    for c in &cases {
        writeln!(jf, "{}", serde_json::to_string(c).unwrap()).unwrap();
        *classes.entry(c04::class(c)).or_insert(0) += 1;
    }
    let stats = serde_json::json!({
        "family": "c04", "mode": mode, "seed": seed, "cases": cases.len(),
        "shards": names, "classes": classes,
    });
    fs::write(out.join("stats.json"), serde_json::to_string_pretty(&stats).unwrap()).unwrap();
    println!("{} cases, {} shards, {} classes", cases.len(), names.len(), classes.len());
}

fn run_cw20(mode: &str, seed: u64, count: usize, out: &PathBuf, shard_size: usize, args: &[String]) {
    let max_steps: usize = arg(args, "--steps").and_then(|s| s.parse().ok()).unwrap_or(40);
    let rans: Vec<cw20::Ran> = match mode {
        "gen" => (0..count as u64).map(|c| cw20::generate(seed, c, max_steps)).collect(),
        "replay" => {
            let f = arg(args, "--file").expect("--file");
            let text = fs::read_to_string(f).unwrap();
            text.lines()
                .filter(|l| l.trim_start().starts_with('{'))
                .map(|l| cw20::replay(&serde_json::from_str::<cw20::Trace>(l).unwrap()))
                .collect()
        }
        _ => panic!("mode"),
    };
    let items: Vec<String> = rans.iter().map(cw20::to_coq).collect();
    let fns: Vec<String> = ["1", "2", "13", "19"].iter().map(|p| format!("check_traces {}", p)).collect();
    let names = shard::write_list_shards(out, "cw20", cw20::COQ_HEADER, "trace", &fns, &items, shard_size);
    let mut jf = fs::File::create(out.join("cases.jsonl")).unwrap();
    let mut steps = 0usize;
    for r in &rans {
        writeln!(jf, "{}", serde_json::to_string(&r.trace).unwrap()).unwrap();
        steps += r.results.len();
    }
    let classes = cw20::class_counts(&rans);
    let stats = serde_json::json!({
        "family": "cw20", "mode": mode, "seed": seed, "cases": rans.len(), "steps": steps,
        "shards": names, "classes": classes, "evals": ["C01", "C02", "C13", "C19"],
    });
    fs::write(out.join("stats.json"), serde_json::to_string_pretty(&stats).unwrap()).unwrap();
    println!("{} traces, {} steps, {} shards, {} classes", rans.len(), steps, names.len(), classes.len());
}

fn run_cw1(mode: &str, seed: u64, count: usize, out: &PathBuf, shard_size: usize, args: &[String]) {
    let max_steps: usize = arg(args, "--steps").and_then(|s| s.parse().ok()).unwrap_or(40);
    let rans: Vec<cw1::Ran> = match mode {
        "gen" => (0..count as u64).map(|c| cw1::generate(seed, c, max_steps)).collect(),
        "replay" => {
            let f = arg(args, "--file").expect("--file");
            let text = fs::read_to_string(f).unwrap();
            text.lines()
                .filter(|l| l.trim_start().starts_with('{'))
                .map(|l| cw1::replay(&serde_json::from_str::<cw1::Trace>(l).unwrap()))
                .collect()
        }
        _ => panic!("mode"),
    };
    let items: Vec<String> = rans.iter().map(cw1::to_coq).collect();
    let fns: Vec<String> = ["7", "8", "16", "17"].iter().map(|p| format!("check_traces {}", p)).collect();
    let names = shard::write_list_shards(out, "cw1", cw1::COQ_HEADER, "trace", &fns, &items, shard_size);
    let mut jf = fs::File::create(out.join("cases.jsonl")).unwrap();
    let mut steps = 0usize;
    for r in &rans {
        writeln!(jf, "{}", serde_json::to_string(&r.trace).unwrap()).unwrap();
        steps += r.results.len();
    }
    let classes = cw1::class_counts(&rans);
    let stats = serde_json::json!({
        "family": "cw1", "mode": mode, "seed": seed, "cases": rans.len(), "steps": steps,
        "shards": names, "classes": classes, "evals": ["C07", "C08", "C16", "C17"],
    });
    fs::write(out.join("stats.json"), serde_json::to_string_pretty(&stats).unwrap()).unwrap();
    println!("{} traces, {} steps, {} shards, {} classes", rans.len(), steps, names.len(), classes.len());
}

fn run_cw4(mode: &str, seed: u64, count: usize, out: &PathBuf, shard_size: usize, args: &[String]) {
    let max_steps: usize = arg(args, "--steps").and_then(|s| s.parse().ok()).unwrap_or(25);
    let rans: Vec<cw4::Ran> = match mode {
        "gen" => (0..count as u64).map(|c| cw4::generate(seed, c, max_steps)).collect(),
        "replay" => {
            let f = arg(args, "--file").expect("--file");
            let text = fs::read_to_string(f).unwrap();
            text.lines()
                .filter(|l| l.trim_start().starts_with('{'))
                .map(|l| cw4::replay(&serde_json::from_str::<cw4::Trace>(l).unwrap()))
                .collect()
        }
        _ => panic!("mode"),
    };
    let items: Vec<String> = rans.iter().map(cw4::to_coq).collect();
    let fns: Vec<String> = ["9", "10", "14"].iter().map(|p| format!("check_traces {}", p)).collect();
    let names = shard::write_list_shards(out, "cw4", cw4::COQ_HEADER, "trace", &fns, &items, shard_size);
    let mut jf = fs::File::create(out.join("cases.jsonl")).unwrap();
    let mut steps = 0usize;
    for r in &rans {
        writeln!(jf, "{}", serde_json::to_string(&r.trace).unwrap()).unwrap();
        steps += r.results.len();
    }
    let classes = cw4::class_counts(&rans);
    let stats = serde_json::json!({
        "family": "cw4", "mode": mode, "seed": seed, "cases": rans.len(), "steps": steps,
        "shards": names, "classes": classes, "evals": ["C09", "C10", "C14"],
    });
    fs::write(out.join("stats.json"), serde_json::to_string_pretty(&stats).unwrap()).unwrap();
    println!("{} traces, {} steps, {} shards, {} classes", rans.len(), steps, names.len(), classes.len());
}

fn run_cw3(mode: &str, seed: u64, count: usize, out: &PathBuf, shard_size: usize, args: &[String]) {
    let max_steps: usize = arg(args, "--steps").and_then(|s| s.parse().ok()).unwrap_or(30);
    let rans: Vec<cw3::Ran> = match mode {
        "gen" => (0..count as u64).map(|c| cw3::generate(seed, c, max_steps)).collect(),
        "replay" => {
            let f = arg(args, "--file").expect("--file");
            let text = fs::read_to_string(f).unwrap();
            text.lines()
                .filter(|l| l.trim_start().starts_with('{'))
                .map(|l| cw3::replay(&serde_json::from_str::<cw3::Trace>(l).unwrap()))
                .collect()
        }
        _ => panic!("mode"),
    };
    let items: Vec<String> = rans.iter().map(cw3::to_coq).collect();
    let fns: Vec<String> = ["3", "5", "6", "15"].iter().map(|p| format!("check_traces {}", p)).collect();
    let names = shard::write_list_shards(out, "cw3", cw3::COQ_HEADER, "trace", &fns, &items, shard_size);
    let mut jf = fs::File::create(out.join("cases.jsonl")).unwrap();
    let mut steps = 0usize;
    for r in &rans {
        writeln!(jf, "{}", serde_json::to_string(&r.trace).unwrap()).unwrap();
        steps += r.nsteps;
    }
    let classes = cw3::class_counts(&rans);
    let stats = serde_json::json!({
        "family": "cw3", "mode": mode, "seed": seed, "cases": rans.len(), "steps": steps,
        "shards": names, "classes": classes, "evals": ["C03", "C05", "C06", "C15"],
    });
    fs::write(out.join("stats.json"), serde_json::to_string_pretty(&stats).unwrap()).unwrap();
    println!("{} traces, {} steps, {} shards, {} classes", rans.len(), steps, names.len(), classes.len());
}

fn run_ics20(mode: &str, seed: u64, count: usize, out: &PathBuf, shard_size: usize, args: &[String]) {
    let max_steps: usize = arg(args, "--steps").and_then(|s| s.parse().ok()).unwrap_or(30);
    let rans: Vec<ics20::Ran> = match mode {
        "gen" => (0..count as u64).map(|c| ics20::generate(seed, c, max_steps)).collect(),
        "replay" => {
            let f = arg(args, "--file").expect("--file");
            let text = fs::read_to_string(f).unwrap();
            text.lines()
                .filter(|l| l.trim_start().starts_with('{'))
                .map(|l| ics20::replay(&serde_json::from_str::<ics20::Trace>(l).unwrap()))
                .collect()
        }
        _ => panic!("mode"),
    };
    let items: Vec<String> = rans.iter().map(ics20::to_coq).collect();
    let fns: Vec<String> = ["11", "12", "18"].iter().map(|p| format!("check_traces {}", p)).collect();
    let names = shard::write_list_shards(out, "ics20", ics20::COQ_HEADER, "trace", &fns, &items, shard_size);
    let mut jf = fs::File::create(out.join("cases.jsonl")).unwrap();
    let mut steps = 0usize;
    for r in &rans {
        writeln!(jf, "{}", serde_json::to_string(&r.trace).unwrap()).unwrap();
        steps += r.recs.len();
    }
    let classes = ics20::class_counts(&rans);
    let stats = serde_json::json!({
        "family": "ics20", "mode": mode, "seed": seed, "cases": rans.len(), "steps": steps,
        "shards": names, "classes": classes, "evals": ["C11", "C12", "C18"],
    });
    fs::write(out.join("stats.json"), serde_json::to_string_pretty(&stats).unwrap()).unwrap();
    println!("{} traces, {} steps, {} shards, {} classes", rans.len(), steps, names.len(), classes.len());
}

fn run_c20(mode: &str, out: &PathBuf, shard_size: usize, args: &[String]) {
    let cases: Vec<c20::Case> = match mode {
        "gen" => c20::generate(args.iter().any(|a| a == "--thorough")),
        "replay" => {
            let f = arg(args, "--file").expect("--file");
            let text = fs::read_to_string(f).unwrap();
            text.lines()
                .filter(|l| l.trim_start().starts_with('{'))
                .flat_map(|l| c20::replay(&serde_json::from_str::<c20::Case>(l).unwrap()))
                .collect()
        }
        _ => panic!("mode"),
    };
    let items: Vec<String> = cases.iter().map(c20::to_coq).collect();
    let names = shard::write_list_shards(out, "c20", c20::COQ_HEADER, "pcase", &["check_c20".to_string()], &items, shard_size);
    let mut jf = fs::File::create(out.join("cases.jsonl")).unwrap();
    let mut classes: BTreeMap<String, u64> = BTreeMap::new();
    for c in &cases {
        writeln!(jf, "{}", serde_json::to_string(c).unwrap()).unwrap();
        *classes.entry(c20::class(c)).or_insert(0) += 1;
    }
    let stats = serde_json::json!({
        "family": "c20", "mode": mode, "cases": cases.len(), "shards": names, "classes": classes,
    });
    fs::write(out.join("stats.json"), serde_json::to_string_pretty(&stats).unwrap()).unwrap();
    println!("{} cases, {} shards, {} classes", cases.len(), names.len(), classes.len());
}
